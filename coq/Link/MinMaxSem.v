(* Semantics (Sem/Sat.v, here-and-there) of the "simple translation" of ngo/minmax_aggregates.py
   (MinMaxAggregator._simple_translation, dispatched by _process_rule; property C12):

       h :- B, w < #max { t, ts : C }.        ~>        h :- B, C', w < t'.        (one rule per element)

   for a single left guard in the aggregate's own direction (< <= on #max, > >= on #min; own_dir), the local variables
   of the element renamed apart (C', t'), and for the singly negated literal with the guard in the opposite direction
   (not w < #min{..}, ...; opp_dir), which _process_rule also sends there (MinMaxSpec.dispatch_table_proof).

   0. lit_sat_gweak .. head_sat_gweak   satisfaction is unchanged when the list G of global variables is enlarged by
                                        variables that do not occur (the generated rule has more global variables)
   1. own_bound_iff / opp_bound_iff     bounds on #max/#min over a tuple set = "some element satisfies the bound";
                                        bad_bound / neg_bad_bound: the one bound value where this fails over the
                                        EMPTY set (bad_bound_is_bad); fin_heads_has_ext (classical)
   2. simple_component                  the heart: one HT component, any sign
   3. simple_translation_rule_sound, max_lower_bound_rule_sound, min_upper_bound_rule_sound   (positive literal, HT)
      simple_translation_rule_targets_imply_source / .._source_implies_targets     (which hypothesis for which direction)
      negated_simple_translation_total_sound   (negated literal, total interpretations H = T)
      negated_simple_translation_ht_partial    (negated literal, HT: only source => target)
      simple_translation_stmt_sound (+ _finite), negated_simple_translation_total_stmt_sound, stmt_sat_agg_position
      simple_translation_stable_sound (one candidate T, no axiom), simple_translation_program_sound (equiv_all),
      negated_simple_translation_stable_partial (the negated case loses answer sets, never gains one)
   4. concrete rules + the executable model Model/MinMax.v:
      (a) negated_simple_translation_ht_refuted, .._program_refuted, negated_pass_refuted, negated_example_total_sound
      (b) inf_bound_refuted      `W <= #max{..}` with W = #inf        (finding, replayed with clingo)
      (c) undefined_tail_refuted `#max{X, 1/Y : ..}`                  (finding, replayed with clingo)
      (d) ex_model, ex_stmt_sound, ex_pass_sound   {foo(X) : dom(X)}. a :- b, 14 < #max{X : foo(X)}.

   Axioms: Classical_Prop.classic only in fin_heads_has_ext and what uses it (simple_translation_stmt_sound_finite,
   simple_translation_program_sound, ex_pass_sound); everything else is axiom-free. *)
From Coq Require Import List String ZArith Bool Lia Arith Permutation.
From NGO Require Import Syntax.Ast Sem.Sym Sem.Sat Model.Normalize Link.AggSem Link.Equiv Link.NormalizeSpec
     Link.SubstSpec Link.SymmetrySem Link.MinMaxSpec Gen.Tables.
From NGO Require Link.CleanupSpec Link.TraverseSpec Model.MinMax.
Import ListNotations.
Open Scope list_scope.

(* ====================================================================================== *)
(* 0. Enlarging the list of global variables by variables that do not occur              *)
(* ====================================================================================== *)
(* every member of G' that is not in G is outside V *)
Definition gfresh (G G' V: list string) : Prop := forall x, In x G' -> ~ In x G -> ~ In x V.

Lemma gfresh_incl G G' V V' : incl V' V -> gfresh G G' V -> gfresh G G' V'.
Proof. intros I F x Hx Nx Hv. exact (F x Hx Nx (I x Hv)). Qed.
Lemma gfresh_app G G' V1 V2 : gfresh G G' (V1 ++ V2) <-> gfresh G G' V1 /\ gfresh G G' V2.
Proof.
  split.
  - intro F. split; eapply gfresh_incl; try exact F; intros x Hx; apply in_app_iff; auto.
  - intros [F1 F2] x Hx Nx Hv. apply in_app_iff in Hv. destruct Hv as [Hv|Hv]; [exact (F1 x Hx Nx Hv) | exact (F2 x Hx Nx Hv)].
Qed.

(* th on V, s elsewhere *)
Definition override (V: list string) (th s: subst) : subst := fun x => if in_dec string_dec x V then th x else s x.
Lemma override_in V th s x : In x V -> override V th s x = th x.
Proof. intro Hx. unfold override. destruct (in_dec string_dec x V); [reflexivity | contradiction]. Qed.
Lemma override_agree G G' V s th : gfresh G G' V -> agree_on G s th -> agree_on G' s (override V th s).
Proof.
  intros F Ag x Hx. unfold override. destruct (in_dec string_dec x V) as [i|n]; [|reflexivity].
  destruct (in_dec string_dec x G) as [g|g]; [apply Ag; exact g | exfalso; exact (F x Hx g i)].
Qed.
Lemma agree_on_incl G G' s th : incl G G' -> agree_on G' s th -> agree_on G s th.
Proof. intros I Ag x Hx. apply Ag. apply I. exact Hx. Qed.

Lemma ex_th_gweak G G' V s (P: subst -> Prop) : incl G G' -> gfresh G G' V ->
  (forall th th', (forall x, In x V -> th x = th' x) -> P th -> P th') ->
  ((exists th, agree_on G s th /\ P th) <-> (exists th, agree_on G' s th /\ P th)).
Proof.
  intros I F Inv. split.
  - intros [th [Ag Pt]]. exists (override V th s). split; [apply (override_agree G G'); assumption|].
    apply (Inv th); [|exact Pt]. intros x Hx. symmetry. apply override_in. exact Hx.
  - intros [th [Ag Pt]]. exists th. split; [apply (agree_on_incl G G'); assumption | exact Pt].
Qed.
Lemma all_th_gweak G G' V s (P: subst -> Prop) : incl G G' -> gfresh G G' V ->
  (forall th th', (forall x, In x V -> th x = th' x) -> P th -> P th') ->
  ((forall th, agree_on G s th -> P th) <-> (forall th, agree_on G' s th -> P th)).
Proof.
  intros I F Inv. split.
  - intros A th Ag. apply A. apply (agree_on_incl G G'); assumption.
  - intros A th Ag. apply (Inv (override V th s)); [intros x Hx; apply override_in; exact Hx|].
    apply A. apply (override_agree G G'); assumption.
Qed.

Section GWeak.
Variable sym_lt : sym -> sym -> Prop.
Notation lit_sat := (lit_sat sym_lt).
Notation atom_sat := (atom_sat sym_lt).
Notation lits_sat := (lits_sat sym_lt).
Notation bodyelem_sat := (bodyelem_sat sym_lt).
Notation body_sat := (body_sat sym_lt).
Notation head_sat := (head_sat sym_lt).
Notation rule_sat := (rule_sat sym_lt).
Notation agg_holds := (agg_holds sym_lt).
Notation elems_tuples := (elems_tuples sym_lt).
Notation choice_elems_ok := (choice_elems_ok sym_lt).
Notation choice_tuples := (choice_tuples sym_lt).
Notation headagg_tuples := (headagg_tuples sym_lt).

Lemma lit_sat_gweak G G' : incl G G' ->
  forall l, gfresh G G' (vars_lit l) -> forall H T s, lit_sat G H T s l <-> lit_sat G' H T s l.
Proof.
  intro I.
  apply (TraverseSpec.lit_ind' (fun l => gfresh G G' (vars_lit l) -> forall H T s, lit_sat G H T s l <-> lit_sat G' H T s l)).
  - intros; simpl; tauto.
  - intros; simpl; tauto.
  - intros; simpl; tauto.
  - intros sg lg f es rg IH Fr H T s.
    change (atom_sat G H T s sg (ABodyAgg lg f es rg) <-> atom_sat G' H T s sg (ABodyAgg lg f es rg)).
    apply bodyagg_sat_ext. intros X tv. rewrite !elems_tuples_iff. rewrite Forall_forall in IH.
    assert (FrE: forall e, In e es -> gfresh G G' (flat_map vars_term (fst e) ++ flat_map vars_lit (snd e))).
    { intros e Ie. eapply gfresh_incl; [|exact Fr]. intros x Hx. simpl. rewrite !in_app_iff. right. left.
      apply in_flat_map. exists e. split; assumption. }
    assert (K: forall e, In e es -> forall th, lits_sat G X T th (snd e) <-> lits_sat G' X T th (snd e)).
    { intros e Ie th. specialize (IH e Ie). rewrite Forall_forall in IH. unfold Sat.lits_sat. rewrite !Forall_forall.
      assert (Fc: forall c, In c (snd e) -> gfresh G G' (vars_lit c)).
      { intros c Hc. eapply gfresh_incl; [|exact (FrE e Ie)]. intros x Hx. apply in_app_iff. right.
        apply in_flat_map. exists c. split; assumption. }
      split; intros A c Hc; apply (IH c Hc (Fc c Hc)); apply A; exact Hc. }
    split; intros [e [Ie R]]; exists e; (split; [exact Ie|]).
    + apply (ex_th_gweak G G' _ s (fun th => eval_list th (fst e) = Some tv /\ lits_sat G' X T th (snd e)) I (FrE e Ie)).
      * intros th th' Eq [E C]. split.
        -- rewrite <- E. symmetry. apply eval_list_coincide. intros x Hx. apply Eq. apply in_app_iff. left. exact Hx.
        -- apply (lits_sat_coincide sym_lt G' X T th th' (snd e)); [|exact C].
           intros x Hx. apply Eq. apply in_app_iff. right. exact Hx.
      * destruct R as [th [Ag [E C]]]. exists th. split; [exact Ag|]. split; [exact E|]. apply (K e Ie). exact C.
    + apply (ex_th_gweak G G' _ s (fun th => eval_list th (fst e) = Some tv /\ lits_sat G X T th (snd e)) I (FrE e Ie)).
      * intros th th' Eq [E C]. split.
        -- rewrite <- E. symmetry. apply eval_list_coincide. intros x Hx. apply Eq. apply in_app_iff. left. exact Hx.
        -- apply (lits_sat_coincide sym_lt G X T th th' (snd e)); [|exact C].
           intros x Hx. apply Eq. apply in_app_iff. right. exact Hx.
      * destruct R as [th [Ag [E C]]]. exists th. split; [exact Ag|]. split; [exact E|]. apply (K e Ie). exact C.
  - intros; simpl; tauto.
  - intros; simpl; tauto.
Qed.

Lemma lits_sat_gweak G G' cs : incl G G' -> gfresh G G' (flat_map vars_lit cs) ->
  forall H T s, lits_sat G H T s cs <-> lits_sat G' H T s cs.
Proof.
  intros I F H T s. unfold Sat.lits_sat. rewrite !Forall_forall.
  assert (Fc: forall c, In c cs -> gfresh G G' (vars_lit c)).
  { intros c Hc. eapply gfresh_incl; [|exact F]. intros x Hx. apply in_flat_map. exists c. split; assumption. }
  split; intros A c Hc; apply (lit_sat_gweak G G' I c (Fc c Hc)); apply A; exact Hc.
Qed.

Lemma condlit_inv G X T (e: condlit) th th' : (forall x, In x (vars_condlit e) -> th x = th' x) ->
  (lits_sat G X T th (snd e) <-> lits_sat G X T th' (snd e)) /\ (lit_sat G X T th (fst e) <-> lit_sat G X T th' (fst e)).
Proof.
  intro Eq. split.
  - apply lits_sat_coincide. intros x Hx. apply Eq. unfold vars_condlit. apply in_app_iff. right. exact Hx.
  - apply lit_sat_coincide. intros x Hx. apply Eq. unfold vars_condlit. apply in_app_iff. left. exact Hx.
Qed.

Lemma bodyelem_sat_gweak G G' b : incl G G' -> gfresh G G' (vars_bodyelem b) ->
  forall H T s, bodyelem_sat G H T s b <-> bodyelem_sat G' H T s b.
Proof.
  intros I F H T s. destruct b as [l|l c]; simpl.
  - apply lit_sat_gweak; assumption.
  - simpl in F. unfold vars_condlit in F. simpl in F. apply gfresh_app in F. destruct F as [Fl Fc].
    rewrite <- (all_th_gweak G G' (vars_condlit (l, c)) s
                  (fun th => (lits_sat G' H T th c -> lit_sat G' H T th l) /\ (lits_sat G' T T th c -> lit_sat G' T T th l)) I).
    + split; intros A th Ag; specialize (A th Ag);
        rewrite ?(lits_sat_gweak G G' c I Fc), ?(lit_sat_gweak G G' I l Fl) in *; exact A.
    + unfold vars_condlit. simpl. apply gfresh_app. split; assumption.
    + intros th th' Eq A.
      destruct (condlit_inv G' H T (l, c) th th' Eq) as [C1 L1]. destruct (condlit_inv G' T T (l, c) th th' Eq) as [C2 L2].
      simpl in *. rewrite <- C1, <- L1, <- C2, <- L2. exact A.
Qed.

Lemma body_sat_gweak G G' B : incl G G' -> gfresh G G' (flat_map vars_bodyelem B) ->
  forall H T s, body_sat G H T s B <-> body_sat G' H T s B.
Proof.
  intros I F H T s. unfold Sat.body_sat. rewrite !Forall_forall.
  assert (Fb: forall b, In b B -> gfresh G G' (vars_bodyelem b)).
  { intros b Hb. eapply gfresh_incl; [|exact F]. intros x Hx. apply in_flat_map. exists b. split; assumption. }
  split; intros A b Hb; apply (bodyelem_sat_gweak G G' b I (Fb b Hb)); apply A; exact Hb.
Qed.

Lemma choice_elems_ok_gweak G G' es : incl G G' -> gfresh G G' (flat_map vars_condlit es) ->
  forall H T s, choice_elems_ok G H T s es <-> choice_elems_ok G' H T s es.
Proof.
  intros I F H T s. unfold Sat.choice_elems_ok.
  assert (Fe: forall e, In e es -> gfresh G G' (vars_condlit e)).
  { intros e He. eapply gfresh_incl; [|exact F]. intros x Hx. apply in_flat_map. exists e. split; assumption. }
  assert (K: forall e, In e es ->
     ((forall th, agree_on G s th -> lits_sat G H T th (snd e) -> lit_sat G H T th (fst e) \/ ~ lit_sat G T T th (fst e)) <->
      (forall th, agree_on G' s th -> lits_sat G' H T th (snd e) -> lit_sat G' H T th (fst e) \/ ~ lit_sat G' T T th (fst e)))).
  { intros e He. pose proof (Fe e He) as F0. unfold vars_condlit in F0. apply gfresh_app in F0. destruct F0 as [Fl Fc].
    rewrite <- (all_th_gweak G G' (vars_condlit e) s
                  (fun th => lits_sat G' H T th (snd e) -> lit_sat G' H T th (fst e) \/ ~ lit_sat G' T T th (fst e)) I (Fe e He)).
    - split; intros A th Ag; specialize (A th Ag);
        rewrite ?(lits_sat_gweak G G' (snd e) I Fc), ?(lit_sat_gweak G G' I (fst e) Fl) in *; exact A.
    - intros th th' Eq A.
      destruct (condlit_inv G' H T e th th' Eq) as [C1 L1]. destruct (condlit_inv G' T T e th th' Eq) as [C2 L2].
      rewrite <- C1, <- L1, <- L2. exact A. }
  split; intros A e th He; [apply (proj1 (K e He)) | apply (proj2 (K e He))]; intros th' Ag C; apply (A e th' He Ag C).
Qed.

Lemma choice_tuples_gweak G G' es : incl G G' -> gfresh G G' (flat_map vars_condlit es) ->
  forall X T s, tup_eq (choice_tuples G X T s es) (choice_tuples G' X T s es).
Proof.
  intros I F X T s tv. unfold Sat.choice_tuples.
  assert (Fe: forall e, In e es -> gfresh G G' (vars_condlit e)).
  { intros e He. eapply gfresh_incl; [|exact F]. intros x Hx. apply in_flat_map. exists e. split; assumption. }
  assert (K: forall e, In e es -> forall n args ext vs, fst e = Lit NoSign (ASym (TFun n args ext)) ->
     ((exists th, agree_on G s th /\ (eval_list th args = Some vs /\ lits_sat G X T th (snd e))) <->
      (exists th, agree_on G' s th /\ (eval_list th args = Some vs /\ lits_sat G' X T th (snd e))))).
  { intros e He n args ext vs E1. pose proof (Fe e He) as F0. unfold vars_condlit in F0. apply gfresh_app in F0. destruct F0 as [Fl Fc].
    rewrite <- (ex_th_gweak G G' (vars_condlit e) s (fun th => eval_list th args = Some vs /\ lits_sat G' X T th (snd e)) I (Fe e He)).
    - split; intros [th [Ag [E C]]]; exists th; (split; [exact Ag|]); (split; [exact E|]);
        apply (lits_sat_gweak G G' (snd e) I Fc); exact C.
    - intros th th' Eq [E C]. split.
      + rewrite <- E. symmetry. apply eval_list_coincide. intros x Hx. apply Eq. unfold vars_condlit. apply in_app_iff. left.
        rewrite E1. simpl. exact Hx.
      + apply (proj1 (condlit_inv G' X T e th th' Eq)). exact C. }
  split; intros (e & th & n & args & ext & vs & He & Ag & E1 & E2 & E3 & C & XA).
  - destruct (proj1 (K e He n args ext vs E1)) as [th' [Ag' [E2' C']]]; [exists th; auto|].
    exists e, th', n, args, ext, vs. repeat split; assumption.
  - destruct (proj2 (K e He n args ext vs E1)) as [th' [Ag' [E2' C']]]; [exists th; auto|].
    exists e, th', n, args, ext, vs. repeat split; assumption.
Qed.

Lemma headagg_tuples_gweak G G' es : incl G G' -> gfresh G G' (flat_map helem_vars es) ->
  forall X T s, tup_eq (headagg_tuples G X T s es) (headagg_tuples G' X T s es).
Proof.
  intros I F X T s tv. unfold Sat.headagg_tuples.
  assert (Fe: forall e, In e es -> gfresh G G' (helem_vars e)).
  { intros e He. eapply gfresh_incl; [|exact F]. intros x Hx. apply in_flat_map. exists e. split; assumption. }
  assert (K: forall e, In e es ->
     ((exists th, agree_on G s th /\ (eval_list th (fst e) = Some tv /\ lits_sat G X T th (snd (snd e)) /\ lit_sat G X T th (fst (snd e)))) <->
      (exists th, agree_on G' s th /\ (eval_list th (fst e) = Some tv /\ lits_sat G' X T th (snd (snd e)) /\ lit_sat G' X T th (fst (snd e)))))).
  { intros e He. pose proof (Fe e He) as F0. unfold helem_vars in F0. apply gfresh_app in F0. destruct F0 as [Ft F0].
    unfold vars_condlit in F0. apply gfresh_app in F0. destruct F0 as [Fl Fc].
    rewrite <- (ex_th_gweak G G' (helem_vars e) s
                  (fun th => eval_list th (fst e) = Some tv /\ lits_sat G' X T th (snd (snd e)) /\ lit_sat G' X T th (fst (snd e))) I (Fe e He)).
    - split; intros [th [Ag [E [C L]]]]; exists th; (split; [exact Ag|]); (split; [exact E|]); split;
        [apply (lits_sat_gweak G G' _ I Fc); exact C | apply (lit_sat_gweak G G' I _ Fl); exact L
        |apply (lits_sat_gweak G G' _ I Fc); exact C | apply (lit_sat_gweak G G' I _ Fl); exact L].
    - intros th th' Eq [E [C L]].
      assert (Eq2: forall x, In x (vars_condlit (snd e)) -> th x = th' x).
      { intros x Hx. apply Eq. unfold helem_vars. apply in_app_iff. right. exact Hx. }
      destruct (condlit_inv G' X T (snd e) th th' Eq2) as [C1 L1]. split; [|split; [apply C1; exact C | apply L1; exact L]].
      rewrite <- E. symmetry. apply eval_list_coincide. intros x Hx. apply Eq. unfold helem_vars. apply in_app_iff. left. exact Hx. }
  split; intros (e & th & He & Ag & E & C & L).
  - destruct (proj1 (K e He)) as [th' [Ag' [E' [C' L']]]]; [exists th; auto|]. exists e, th'. repeat split; assumption.
  - destruct (proj2 (K e He)) as [th' [Ag' [E' [C' L']]]]; [exists th; auto|]. exists e, th'. repeat split; assumption.
Qed.

Lemma head_sat_gweak G G' h : incl G G' -> gfresh G G' (vars_head h) ->
  forall H T s, head_sat G H T s h <-> head_sat G' H T s h.
Proof.
  intros I F H T s. destruct h as [l|es|lg es rg|lg f es rg|tx]; simpl.
  - apply lit_sat_gweak; assumption.
  - simpl in F.
    assert (Fe: forall e, In e es -> gfresh G G' (vars_condlit e)).
    { intros e He. eapply gfresh_incl; [|exact F]. intros x Hx. apply in_flat_map. exists e. split; assumption. }
    assert (K: forall e, In e es ->
       ((exists th, agree_on G s th /\ (lits_sat G H T th (snd e) /\ lit_sat G H T th (fst e))) <->
        (exists th, agree_on G' s th /\ (lits_sat G' H T th (snd e) /\ lit_sat G' H T th (fst e))))).
    { intros e He. pose proof (Fe e He) as F0. unfold vars_condlit in F0. apply gfresh_app in F0. destruct F0 as [Fl Fc].
      rewrite <- (ex_th_gweak G G' (vars_condlit e) s (fun th => lits_sat G' H T th (snd e) /\ lit_sat G' H T th (fst e)) I (Fe e He)).
      - split; intros [th [Ag [C L]]]; exists th; (split; [exact Ag|]); split;
          [apply (lits_sat_gweak G G' _ I Fc); exact C | apply (lit_sat_gweak G G' I _ Fl); exact L
          |apply (lits_sat_gweak G G' _ I Fc); exact C | apply (lit_sat_gweak G G' I _ Fl); exact L].
      - intros th th' Eq [C L]. destruct (condlit_inv G' H T e th th' Eq) as [C1 L1]. split; [apply C1; exact C | apply L1; exact L]. }
    split; intros (e & th & He & Ag & C & L).
    + destruct (proj1 (K e He)) as [th' [Ag' [C' L']]]; [exists th; auto|]. exists e, th'. repeat split; assumption.
    + destruct (proj2 (K e He)) as [th' [Ag' [C' L']]]; [exists th; auto|]. exists e, th'. repeat split; assumption.
  - simpl in F. apply gfresh_app in F. destruct F as [_ F]. apply gfresh_app in F. destruct F as [F _].
    rewrite (choice_elems_ok_gweak G G' es I F H T s).
    rewrite (agg_holds_ext sym_lt s lg FCount rg _ _ (choice_tuples_gweak G G' es I F T T s)). tauto.
  - simpl in F. apply gfresh_app in F. destruct F as [_ F]. apply gfresh_app in F. destruct F as [F _].
    change (gfresh G G' (flat_map helem_vars es)) in F.
    assert (F2: gfresh G G' (flat_map vars_condlit (map snd es))).
    { eapply gfresh_incl; [|exact F]. intros x Hx. apply in_flat_map in Hx. destruct Hx as [c [Hc Hx]].
      apply in_map_iff in Hc. destruct Hc as [e [<- He]]. apply in_flat_map. exists e. split; [exact He|].
      unfold helem_vars. apply in_app_iff. right. exact Hx. }
    rewrite (choice_elems_ok_gweak G G' (map snd es) I F2 H T s).
    rewrite (agg_holds_ext sym_lt s lg f rg _ _ (headagg_tuples_gweak G G' es I F T T s)). tauto.
  - tauto.
Qed.

End GWeak.

(* ====================================================================================== *)
(* 1. One-sided bounds on #max / #min over a tuple set                                    *)
(* ====================================================================================== *)
(* the guard is "in the aggregate's own direction" *)
Definition own_dir (f: aggfun) (c: cmp) : Prop :=
  (f = FMax /\ (c = CLt \/ c = CLe)) \/ (f = FMin /\ (c = CGt \/ c = CGe)).
(* ... or in the opposite direction (these are sent to the simple translation when the literal is negated) *)
Definition opp_dir (f: aggfun) (c: cmp) : Prop :=
  (f = FMin /\ (c = CLt \/ c = CLe)) \/ (f = FMax /\ (c = CGt \/ c = CGe)).

(* the one value of the bound for which "some element satisfies the bound" differs from the aggregate atom
   over the EMPTY set:   #inf <= #max{} (= #inf)  and  #sup >= #min{} (= #sup)  hold *)
Definition bad_bound (f: aggfun) (c: cmp) : option sym :=
  match f, c with FMax, CLe => Some SInf | FMin, CGe => Some SSup | _, _ => None end.
(* ... and for the negated literal:  not #sup < #min{}  and  not #inf > #max{}  hold *)
Definition neg_bad_bound (f: aggfun) (c: cmp) : option sym :=
  match f, c with FMin, CLt => Some SSup | FMax, CGt => Some SInf | _, _ => None end.

Lemma bad_bound_strict f c : c = CLt \/ c = CGt -> bad_bound f c = None.
Proof. intros [-> | ->]; destruct f; reflexivity. Qed.
Lemma neg_bad_bound_nonstrict f c : c = CLe \/ c = CGe -> neg_bad_bound f c = None.
Proof. intros [-> | ->]; destruct f; reflexivity. Qed.

(* the translated dispatch table of _process_rule in these terms *)
Theorem dispatch_own_opp sg f c :
  minmax_simple_dispatch sg f c = true <-> (sg = NoSign /\ own_dir f c) \/ (sg = Neg /\ opp_dir f c).
Proof. apply dispatch_table_proof. Qed.

Section Bounds.
Variable sym_lt : sym -> sym -> Prop.
Hypothesis ord : sym_order sym_lt.
Notation cmp_holds := (cmp_holds sym_lt).
Notation agg_value := (agg_value sym_lt).

(* the set of first components has a greatest / least member, or the tuple set is empty *)
Definition has_max (S: tupset) : Prop :=
  (exists m, heads_of S m /\ forall e, heads_of S e -> e = m \/ sym_lt e m) \/ (forall tv, ~ S tv).
Definition has_min (S: tupset) : Prop :=
  (exists m, heads_of S m /\ forall e, heads_of S e -> e = m \/ sym_lt m e) \/ (forall tv, ~ S tv).
Definition has_ext (f: aggfun) (S: tupset) : Prop :=
  match f with FMax => has_max S | FMin => has_min S | _ => False end.

Lemma lt_tr a b c : sym_lt a b -> sym_lt b c -> sym_lt a c.
Proof. apply (lt_trans _ ord). Qed.
Lemma lt_irr a : ~ sym_lt a a.
Proof. apply (lt_irrefl _ ord). Qed.
Lemma not_lt_inf a : ~ sym_lt a SInf.
Proof.
  intro L. destruct (sym_eq_or_ne a SInf) as [->|N]; [exact (lt_irr _ L)|].
  apply (lt_irr a). exact (lt_tr _ _ _ L (lt_inf _ ord a N)).
Qed.
Lemma not_sup_lt a : ~ sym_lt SSup a.
Proof.
  intro L. destruct (sym_eq_or_ne a SSup) as [->|N]; [exact (lt_irr _ L)|].
  apply (lt_irr a). exact (lt_tr _ _ _ (lt_sup _ ord a N) L).
Qed.
Lemma lt_asym a b : sym_lt a b -> sym_lt b a -> False.
Proof. intros A B. exact (lt_irr a (lt_tr _ _ _ A B)). Qed.

Lemma heads_value f S v : (f = FMax \/ f = FMin) -> agg_value f S v -> heads_of S v \/ (forall tv, ~ S tv).
Proof.
  intros [-> | ->]; simpl; intros [[[tv [Stv Hd]] _]|[Emp _]]; try (right; exact Emp); left; exists tv; split; assumption.
Qed.

(* (=>): the value of the aggregate is itself an element (no assumption on S); over the empty set the bound
   must not be the bad one *)
Lemma own_bound_fwd f c S w : own_dir f c -> bad_bound f c <> Some w ->
  (exists v, agg_value f S v /\ cmp_holds c w v) -> exists e, heads_of S e /\ cmp_holds c w e.
Proof.
  intros D Hw [v [V C]].
  destruct D as [[-> Hc]|[-> Hc]]; simpl in V; destruct V as [[[tv [Stv Hd]] _]|[Emp ->]];
    try (exists v; split; [exists tv; split; assumption | exact C]); exfalso;
    destruct Hc as [-> | ->]; simpl in C, Hw.
  - exact (not_lt_inf _ C).
  - destruct C as [L|E]; [exact (not_lt_inf _ L) | apply Hw; rewrite E; reflexivity].
  - exact (not_sup_lt _ C).
  - destruct C as [L|E]; [exact (not_sup_lt _ L) | apply Hw; rewrite E; reflexivity].
Qed.

(* (<=): needs the extremum to exist *)
Lemma own_bound_bwd f c S w : own_dir f c -> has_ext f S ->
  (exists e, heads_of S e /\ cmp_holds c w e) -> exists v, agg_value f S v /\ cmp_holds c w v.
Proof.
  intros D Hx [e [[tv [Stv Hd]] Ce]].
  destruct D as [[-> Hc]|[-> Hc]]; simpl in Hx; (destruct Hx as [[m [[tm [Stm Hdm]] Mx]]|Emp]; [|exfalso; exact (Emp tv Stv)]);
    exists m; (split; [left; split; [exists tm; split; assumption|];
                       intros tv' w' Stv' Hd'; destruct (Mx w' (ex_intro _ tv' (conj Stv' Hd'))) as [->|L]; [left; reflexivity | right; exact L]|]);
    (destruct (Mx e (ex_intro _ tv (conj Stv Hd))) as [->|L]; [exact Ce|]); destruct Hc as [-> | ->]; simpl in *.
  - exact (lt_tr _ _ _ Ce L).
  - left. destruct Ce as [L'| ->]; [exact (lt_tr _ _ _ L' L) | exact L].
  - exact (lt_tr _ _ _ L Ce).
  - left. destruct Ce as [L'| ->]; [exact (lt_tr _ _ _ L L') | exact L].
Qed.

Theorem own_bound_iff f c S w : own_dir f c -> has_ext f S -> bad_bound f c <> Some w ->
  ((exists v, agg_value f S v /\ cmp_holds c w v) <-> (exists e, heads_of S e /\ cmp_holds c w e)).
Proof. intros D Hx Hw. split; [apply own_bound_fwd; assumption | apply own_bound_bwd; assumption]. Qed.

(* cmp_holds is decidable up to double negation only through totality; what is needed: *)
Lemma not_lt_ge a b : ~ sym_lt a b -> sym_lt b a \/ a = b.
Proof. intro N. destruct (lt_total _ ord a b) as [L|[E|L]]; [contradiction | right; exact E | left; exact L]. Qed.

(* the negated literal with the guard in the opposite direction:  not w < #min S  iff  some element e has not w < e *)
Lemma opp_bound_bwd f c S w : opp_dir f c ->
  (exists e, heads_of S e /\ ~ cmp_holds c w e) -> ~ (exists v, agg_value f S v /\ cmp_holds c w v).
Proof.
  intros D [e [[tv [Stv Hd]] Ne]] [v [V C]]. apply Ne. clear Ne.
  destruct D as [[-> Hc]|[-> Hc]]; simpl in V; (destruct V as [[_ Mn]|[Emp _]]; [|exfalso; exact (Emp tv Stv)]);
    destruct (Mn tv e Stv Hd) as [->|L]; try exact C; destruct Hc as [-> | ->]; simpl in *.
  - exact (lt_tr _ _ _ C L).
  - left. destruct C as [L'| ->]; [exact (lt_tr _ _ _ L' L) | exact L].
  - exact (lt_tr _ _ _ L C).
  - left. destruct C as [L'| ->]; [exact (lt_tr _ _ _ L L') | exact L].
Qed.

Lemma opp_bound_fwd f c S w : opp_dir f c -> has_ext f S -> neg_bad_bound f c <> Some w ->
  ~ (exists v, agg_value f S v /\ cmp_holds c w v) -> exists e, heads_of S e /\ ~ cmp_holds c w e.
Proof.
  intros D Hx Hw N.
  destruct D as [[-> Hc]|[-> Hc]]; simpl in Hx; destruct Hx as [[m [[tm [Stm Hdm]] Mx]]|Emp].
  - exists m. split; [exists tm; split; assumption|]. intro C. apply N. exists m. split; [|exact C].
    left. split; [exists tm; split; assumption|]. intros tv' w' Stv' Hd'.
    destruct (Mx w' (ex_intro _ tv' (conj Stv' Hd'))) as [->|L]; [left; reflexivity | right; exact L].
  - exfalso. apply N. exists SSup. split; [right; split; [exact Emp | reflexivity]|].
    destruct Hc as [-> | ->]; simpl in *.
    + apply (lt_sup _ ord). intro E. apply Hw. rewrite E. reflexivity.
    + destruct (sym_eq_or_ne w SSup) as [E|E]; [right; exact E | left; apply (lt_sup _ ord); exact E].
  - exists m. split; [exists tm; split; assumption|]. intro C. apply N. exists m. split; [|exact C].
    left. split; [exists tm; split; assumption|]. intros tv' w' Stv' Hd'.
    destruct (Mx w' (ex_intro _ tv' (conj Stv' Hd'))) as [->|L]; [left; reflexivity | right; exact L].
  - exfalso. apply N. exists SInf. split; [right; split; [exact Emp | reflexivity]|].
    destruct Hc as [-> | ->]; simpl in *.
    + apply (lt_inf _ ord). intro E. apply Hw. rewrite E. reflexivity.
    + destruct (sym_eq_or_ne w SInf) as [E|E]; [right; exact E | left; apply (lt_inf _ ord); exact E].
Qed.

Theorem opp_bound_iff f c S w : opp_dir f c -> has_ext f S -> neg_bad_bound f c <> Some w ->
  (~ (exists v, agg_value f S v /\ cmp_holds c w v) <-> (exists e, heads_of S e /\ ~ cmp_holds c w e)).
Proof. intros D Hx Hw. split; [apply opp_bound_fwd; assumption | apply opp_bound_bwd; assumption]. Qed.

(* the two bad bounds are real: over the empty set the atom holds, no element does *)
Theorem bad_bound_is_bad f c w : bad_bound f c = Some w ->
  (exists v, agg_value f (fun _ => False) v /\ cmp_holds c w v) /\ ~ (exists e, heads_of (fun _ => False) e /\ cmp_holds c w e).
Proof.
  intro E. split; [|intros [e [[tv [[] _]] _]]].
  destruct f, c; simpl in E; try discriminate E; injection E as <-.
  - exists SSup. split; [right; split; [tauto | reflexivity] | right; reflexivity].
  - exists SInf. split; [right; split; [tauto | reflexivity] | right; reflexivity].
Qed.
Theorem neg_bad_bound_is_bad f c w : neg_bad_bound f c = Some w ->
  ~ (exists v, agg_value f (fun _ => False) v /\ cmp_holds c w v) /\ ~ (exists e, heads_of (fun _ => False) e /\ ~ cmp_holds c w e).
Proof.
  intro E. split; [|intros [e [[tv [[] _]] _]]].
  destruct f, c; simpl in E; try discriminate E; injection E as <-; intros [v [[[[tv [[] _]] _]|[_ ->]] C]]; simpl in C;
    exact (lt_irr _ C).
Qed.

(* ---- finite sets have extrema (classical: membership in S is not decidable) ---- *)
Definition fin_heads (S: tupset) : Prop := exists l, forall e, heads_of S e -> In e l.

Lemma fin_heads_sub (S S': tupset) : (forall tv, S' tv -> S tv) -> fin_heads S -> fin_heads S'.
Proof. intros Sub [l Hl]. exists l. intros e [tv [Stv Hd]]. apply Hl. exists tv. split; [apply Sub; exact Stv | exact Hd]. Qed.
End Bounds.

From Coq Require Classical_Prop.

Section FiniteExtrema.
Variable sym_lt : sym -> sym -> Prop.
Hypothesis ord : sym_order sym_lt.

Lemma finite_extremum (R: sym -> sym -> Prop) :
  (forall a b c, R a b -> R b c -> R a c) -> (forall a b, R a b \/ a = b \/ R b a) ->
  forall (l: list sym) (Q: sym -> Prop), (forall e, Q e -> In e l) ->
  (exists m, Q m /\ forall e, Q e -> e = m \/ R e m) \/ (forall e, ~ Q e).
Proof.
  intros Tr Tot. induction l as [|a l IH]; intros Q Cov.
  - right. intros e Qe. exact (Cov e Qe).
  - destruct (Classical_Prop.classic (Q a)) as [Qa|NQa].
    + destruct (IH (fun e => Q e /\ e <> a)) as [[m [[Qm Nm] Mx]]|Emp].
      { intros e [Qe Ne]. destruct (Cov e Qe) as [E|I]; [exfalso; apply Ne; symmetry; exact E | exact I]. }
      * left. destruct (Tot a m) as [L|[E|L]].
        -- exists m. split; [exact Qm|]. intros e Qe. destruct (sym_eq_or_ne e a) as [->|Ne]; [right; exact L|].
           apply Mx. split; assumption.
        -- exfalso. apply Nm. symmetry. exact E.
        -- exists a. split; [exact Qa|]. intros e Qe. destruct (sym_eq_or_ne e a) as [->|Ne]; [left; reflexivity|].
           destruct (Mx e (conj Qe Ne)) as [->|L']; [right; exact L | right; exact (Tr _ _ _ L' L)].
      * left. exists a. split; [exact Qa|]. intros e Qe. destruct (sym_eq_or_ne e a) as [->|Ne]; [left; reflexivity|].
        exfalso. exact (Emp e (conj Qe Ne)).
    + apply IH. intros e Qe. destruct (Cov e Qe) as [E|I]; [exfalso; apply NQa; rewrite E; exact Qe | exact I].
Qed.

(* tuple sets whose tuples are non-empty (every element of a body aggregate has at least one term) *)
Definition nonempty_tuples (S: tupset) : Prop := forall tv, S tv -> tv <> [].

Theorem fin_heads_has_ext f S : (f = FMax \/ f = FMin) -> nonempty_tuples S -> fin_heads S -> has_ext sym_lt f S.
Proof.
  intros Hf NE [l Cov].
  assert (EmpT: (forall e, ~ heads_of S e) -> forall tv, ~ S tv).
  { intros Emp tv Stv. destruct tv as [|v r]; [exact (NE _ Stv eq_refl)|]. apply (Emp v). exists (v :: r). split; [exact Stv | reflexivity]. }
  destruct Hf as [-> | ->]; simpl.
  - destruct (finite_extremum sym_lt (lt_trans _ ord) (lt_total _ ord) l (heads_of S) Cov) as [M|Emp]; [left; exact M | right; exact (EmpT Emp)].
  - destruct (finite_extremum (fun a b => sym_lt b a)) with (l := l) (Q := heads_of S) as [M|Emp]; [| |exact Cov| |].
    + intros a b c A B. exact (lt_trans _ ord _ _ _ B A).
    + intros a b. destruct (lt_total _ ord a b) as [L|[E|L]]; auto.
    + left. exact M.
    + right. exact (EmpT Emp).
Qed.
End FiniteExtrema.

(* ====================================================================================== *)
(* 2. The rewrite                                                                         *)
(* ====================================================================================== *)
Definition evars (e: belem) : list string := flat_map vars_term (fst e) ++ flat_map vars_lit (snd e).
(* transform_ast(elem, "Variable", old2new) *)
Definition ren_elem (r: string -> string) (e: belem) : belem := (map (vmap_term (ren r)) (fst e), map (ren_lit r) (snd e)).
(* sg  w c #f { es }   (left guard only) *)
Definition agg_lit (sg: sign) (c: cmp) (w: term) (f: aggfun) (es: list belem) : lit := Lit sg (ABodyAgg (Some (c, w)) f es None).
(* sg  w c t *)
Definition cmp_lit (sg: sign) (c: cmp) (w t: term) : lit := Lit sg (ACmp w [(c, t)]).
(* what replaces the aggregate for the (renamed) element e:  condition, sg w c first-term *)
Definition elem_body (sg: sign) (c: cmp) (w: term) (e: belem) : list bodyelem :=
  map BLit (snd e) ++ [BLit (cmp_lit sg c w (hd (TSym SInf) (fst e)))].

(* the meaning of the comparison literal on values *)
Definition cmp_rel (sym_lt: sym -> sym -> Prop) (sg: sign) (c: cmp) (a b: sym) : Prop :=
  match sg with Neg => ~ cmp_holds sym_lt c a b | _ => cmp_holds sym_lt c a b end.

(* side conditions on an element e and the renaming r applied to it; G = global variables of the source rule,
   V = all variables of the rest of the source rule (head, B, bound) and G *)
Record elem_ok (G V: list string) (r: string -> string) (e: belem) : Prop := {
  eo_simple : forallb simple_lit_b (snd e) = true;           (* conditions are literals (any sign), not aggregates *)
  eo_terms : fst e <> [];                                     (* the tuple has a first term *)
  eo_tail : forall th, exists vs, eval_list th (tl (fst e)) = Some vs;   (* the other tuple terms are always defined *)
  eo_fix : forall x, In x (evars e) -> In x G -> r x = x;     (* global variables keep their name *)
  eo_fresh : forall x, In x (evars e) -> ~ In x G -> ~ In (r x) V;  (* local variables get names outside V *)
  eo_inj : forall x y, In x (evars e) -> In y (evars e) -> r x = r y -> x = y
}.

(* tuple terms without arithmetic are always defined *)
Lemma tail_defined_syntactic ts : forallb always_defined ts = true -> forall th, exists vs, eval_list th ts = Some vs.
Proof.
  intros D th. apply eval_list_defined. apply Forall_forall. intros t Ht. apply always_defined_eval.
  rewrite forallb_forall in D. apply D. exact Ht.
Qed.

(* s, except that the new name of every variable y of V carries th y *)
Definition merge (r: string -> string) (V: list string) (s th: subst) : subst :=
  fun z => match find (fun y => String.eqb (r y) z) V with Some y => th y | None => s z end.

Lemma merge_ren r V s th y : (forall x y, In x V -> In y V -> r x = r y -> x = y) -> In y V -> merge r V s th (r y) = th y.
Proof.
  intros Inj Hy. unfold merge. destruct (find (fun y0 => String.eqb (r y0) (r y)) V) as [y'|] eqn:F.
  - apply find_some in F. destruct F as [Hy' E]. apply String.eqb_eq in E. rewrite (Inj y' y Hy' Hy E). reflexivity.
  - exfalso. pose proof (find_none _ _ F y Hy) as E. simpl in E. rewrite String.eqb_refl in E. discriminate E.
Qed.
Lemma merge_off r V s th z : (forall y, In y V -> r y = z -> th y = s z) -> merge r V s th z = s z.
Proof.
  intro A. unfold merge. destruct (find (fun y => String.eqb (r y) z) V) as [y|] eqn:F; [|reflexivity].
  apply find_some in F. destruct F as [Hy E]. apply String.eqb_eq in E. exact (A y Hy E).
Qed.

Section Rewrite.
Variable sym_lt : sym -> sym -> Prop.
Hypothesis ord : sym_order sym_lt.
Notation lit_sat := (lit_sat sym_lt).
Notation atom_sat := (atom_sat sym_lt).
Notation lits_sat := (lits_sat sym_lt).
Notation bodyelem_sat := (bodyelem_sat sym_lt).
Notation body_sat := (body_sat sym_lt).
Notation head_sat := (head_sat sym_lt).
Notation rule_sat := (rule_sat sym_lt).
Notation stmt_sat := (stmt_sat sym_lt).
Notation agg_holds := (agg_holds sym_lt).
Notation agg_value := (agg_value sym_lt).
Notation cmp_holds := (cmp_holds sym_lt).
Notation cmp_rel := (cmp_rel sym_lt).
Notation elems_tuples := (elems_tuples sym_lt).
Notation has_ext := (has_ext sym_lt).

Lemma cmp_lit_sat G H T s sg c w t :
  lit_sat G H T s (cmp_lit sg c w t) <-> exists a b, eval s w = Some a /\ eval s t = Some b /\ cmp_rel sg c a b.
Proof.
  unfold cmp_lit. rewrite lit_sat_cmp_eq. unfold cmp_def, Sat.cmp_true. simpl.
  destruct (eval s w) as [a|]; [|split; [intros [[A _] _]; congruence | intros [a [b [E _]]]; discriminate E]].
  destruct (eval s t) as [b|]; [|split; [intros [[_ [A _]] _]; congruence | intros [a' [b [_ [E _]]]]; discriminate E]].
  split.
  - intros [_ R]. exists a, b. split; [reflexivity|]. split; [reflexivity|]. destruct sg; simpl in *; tauto.
  - intros [a' [b' [Ea [Eb R]]]]. injection Ea as <-. injection Eb as <-.
    split; [repeat split; discriminate|]. destruct sg; simpl in *; tauto.
Qed.

(* "some element of the aggregate satisfies the comparison" at the substitution s *)
Definition elem_fires G (X T: interp) (s: subst) sg c w (es: list belem) : Prop :=
  exists e th tv a b, In e es /\ agree_on G s th /\ eval_list th (fst e) = Some tv /\ hd_error tv = Some b /\
     lits_sat G X T th (snd e) /\ eval s w = Some a /\ cmp_rel sg c a b.

Lemma elem_fires_heads G X T s sg c w es :
  elem_fires G X T s sg c w es <-> exists a, eval s w = Some a /\ exists b, heads_of (elems_tuples G X T s es) b /\ cmp_rel sg c a b.
Proof.
  unfold elem_fires, heads_of. split.
  - intros (e & th & tv & a & b & Ie & Ag & E & Hd & C & Ew & R). exists a. split; [exact Ew|]. exists b. split; [|exact R].
    exists tv. split; [|exact Hd]. apply elems_tuples_iff. exists e. split; [exact Ie|]. exists th. auto.
  - intros (a & Ew & b & [tv [S Hd]] & R). apply elems_tuples_iff in S. destruct S as (e & Ie & th & Ag & E & C).
    exists e, th, tv, a, b. auto 10.
Qed.

Lemma agg_holds_left s c w f S :
  agg_holds s (Some (c, w)) f None S <-> exists a, eval s w = Some a /\ exists v, agg_value f S v /\ cmp_holds c a v.
Proof.
  unfold Sat.agg_holds. simpl. split.
  - intros [v [V [Gd _]]]. destruct (eval s w) as [a|]; [|contradiction]. exists a. split; [reflexivity|]. exists v. auto.
  - intros [a [E [v [V C]]]]. exists v. rewrite E. auto.
Qed.

Lemma agg_lit_sat G H T s sg c w f es :
  lit_sat G H T s (agg_lit sg c w f es) =
  apply_sign sg (agg_holds s (Some (c, w)) f None (elems_tuples G H T s es) /\ agg_holds s (Some (c, w)) f None (elems_tuples G T T s es))
                (agg_holds s (Some (c, w)) f None (elems_tuples G T T s es)).
Proof. reflexivity. Qed.

(* the positive literal in one HT component X (X = H or X = T) *)
Lemma agg_pos_fires_fwd G X T s c w f es : own_dir f c ->
  (forall a, eval s w = Some a -> bad_bound f c <> Some a) ->
  lit_sat G X T s (agg_lit NoSign c w f es) -> elem_fires G X T s NoSign c w es.
Proof.
  intros D Hw L. rewrite agg_lit_sat in L. simpl in L. destruct L as [LX _].
  apply agg_holds_left in LX. destruct LX as [a [Ew V]].
  apply elem_fires_heads. exists a. split; [exact Ew|]. apply (own_bound_fwd sym_lt ord f c _ a D (Hw a Ew) V).
Qed.

Lemma agg_pos_fires_bwd G X T s c w f es : own_dir f c ->
  (forall tv, elems_tuples G X T s es tv -> elems_tuples G T T s es tv) ->
  has_ext f (elems_tuples G X T s es) -> has_ext f (elems_tuples G T T s es) ->
  elem_fires G X T s NoSign c w es -> lit_sat G X T s (agg_lit NoSign c w f es).
Proof.
  intros D Sub HX HT F. apply elem_fires_heads in F. destruct F as [a [Ew [b [Hb R]]]]. simpl in R.
  rewrite agg_lit_sat. simpl. split; apply agg_holds_left; exists a; (split; [exact Ew|]).
  - apply (own_bound_bwd sym_lt ord f c _ a D HX). exists b. split; assumption.
  - apply (own_bound_bwd sym_lt ord f c _ a D HT). exists b. split; [|exact R].
    destruct Hb as [tv [S Hd]]. exists tv. split; [apply Sub; exact S | exact Hd].
Qed.

(* the negated literal only looks at T *)
Lemma agg_neg_fires G H T s c w f es : opp_dir f c -> has_ext f (elems_tuples G T T s es) ->
  eval s w <> None -> (forall a, eval s w = Some a -> neg_bad_bound f c <> Some a) ->
  (lit_sat G H T s (agg_lit Neg c w f es) <-> elem_fires G T T s Neg c w es).
Proof.
  intros D HT Dw Hw. rewrite agg_lit_sat. simpl. rewrite agg_holds_left, elem_fires_heads.
  destruct (eval s w) as [a|]; [|congruence]. split.
  - intro N. exists a. split; [reflexivity|]. apply (opp_bound_fwd sym_lt ord f c _ a D HT (Hw a eq_refl)).
    intro V. apply N. exists a. split; [reflexivity | exact V].
  - intros [a' [E R]] [a'' [E' V]]. injection E as <-. injection E' as <-.
    exact (opp_bound_bwd sym_lt ord f c _ a D R V).
Qed.

Lemma tuples_persist G H T s es : subi H T -> forall tv, elems_tuples G H T s es tv -> elems_tuples G T T s es tv.
Proof.
  intros S tv. rewrite !elems_tuples_iff. intros (e & Ie & th & Ag & E & C). exists e. split; [exact Ie|]. exists th.
  split; [exact Ag|]. split; [exact E|]. exact (CleanupSpec.lits_sat_persist_proof sym_lt G H T th (snd e) S C).
Qed.

Lemma tuples_nonempty G X T s es : (forall e, In e es -> fst e <> []) -> nonempty_tuples (elems_tuples G X T s es).
Proof.
  intros NE tv S. apply elems_tuples_iff in S. destruct S as (e & Ie & th & _ & E & _). specialize (NE e Ie).
  destruct (fst e) as [|t ts]; [congruence|]. simpl in E. destruct (eval th t); [|discriminate]. destruct (eval_list th ts); [|discriminate].
  injection E as <-. discriminate.
Qed.

Lemma lits_sat_ren G G' X T s r cs : forallb simple_lit_b cs = true ->
  (lits_sat G X T s (map (ren_lit r) cs) <-> lits_sat G' X T (comp s r) cs).
Proof.
  intro S. rewrite forallb_forall in S. unfold Sat.lits_sat. rewrite Forall_map, !Forall_forall.
  split; intros F c Hc; apply (lit_sat_ren sym_lt G G' X T s r c (S c Hc)); apply F; exact Hc.
Qed.

Lemma hd_map_ren r ts : hd (TSym SInf) (map (vmap_term (ren r)) ts) = vmap_term (ren r) (hd (TSym SInf) ts).
Proof. destruct ts; reflexivity. Qed.

(* ---- the heart: one HT component.  Source: "B and some element fires imply the head" (global variables G);
        target: one rule per element, whose global variables G' re extend G by variables foreign to h and B ---- *)
Lemma simple_component G X T h B sg c w (res: list ((string -> string) * belem)) (G': (string -> string) * belem -> list string) :
  (forall re, In re res -> elem_ok G (G ++ vars_head h ++ flat_map vars_bodyelem B ++ vars_term w) (fst re) (snd re)) ->
  (forall re, In re res -> incl G (G' re) /\ gfresh G (G' re) (vars_head h ++ flat_map vars_bodyelem B)) ->
  ((forall s, body_sat G X T s B -> elem_fires G X T s sg c w (map snd res) -> head_sat G X T s h) <->
   (forall re, In re res -> forall s,
      body_sat (G' re) X T s (B ++ elem_body sg c w (ren_elem (fst re) (snd re))) -> head_sat (G' re) X T s h)).
Proof.
  intros OK GW. split.
  - intros A [r e] Hre s' F. destruct (GW _ Hre) as [I Fr]. pose proof (OK _ Hre) as O. simpl fst in *. simpl snd in *.
    apply gfresh_app in Fr. destruct Fr as [Frh FrB].
    apply (head_sat_gweak sym_lt G (G' (r, e)) h I Frh). apply A.
    + apply body_sat_app in F. destruct F as [FB _]. apply (body_sat_gweak sym_lt G (G' (r, e)) B I FrB). exact FB.
    + apply body_sat_app in F. destruct F as [_ F]. unfold elem_body, ren_elem in F. simpl fst in F. simpl snd in F.
      apply body_sat_app in F. destruct F as [FC Fc]. apply body_sat_blits in FC. apply body_sat_one in Fc. simpl in Fc.
      rewrite hd_map_ren in Fc. apply cmp_lit_sat in Fc. destruct Fc as [a [b [Ew [Et R]]]].
      rewrite eval_ren in Et. apply (lits_sat_ren (G' (r, e)) G X T s' r (snd e) (eo_simple _ _ _ _ O)) in FC.
      set (th := override (evars e) (comp s' r) s').
      assert (Eth: forall x, In x (evars e) -> th x = comp s' r x) by (intros x Hx; apply override_in; exact Hx).
      destruct (fst e) as [|t ts] eqn:Ee; [exfalso; exact (eo_terms _ _ _ _ O Ee)|]. simpl in Et.
      destruct (eo_tail _ _ _ _ O th) as [vs Evs]. rewrite Ee in Evs. simpl in Evs.
      exists e, th, (b :: vs), a, b. split; [apply in_map_iff; exists (r, e); split; [reflexivity | exact Hre]|].
      split; [|split; [|split; [reflexivity|split; [|split; [exact Ew | exact R]]]]].
      * intros x Hx. unfold th, override. destruct (in_dec string_dec x (evars e)) as [i|n]; [|reflexivity].
        unfold comp. rewrite (eo_fix _ _ _ _ O x i Hx). reflexivity.
      * rewrite Ee. simpl. rewrite Evs.
        rewrite (eval_coincide t th (comp s' r)); [rewrite Et; reflexivity|].
        intros x Hx. apply Eth. unfold evars. rewrite Ee. simpl. rewrite !in_app_iff. left. left. exact Hx.
      * apply (lits_sat_coincide sym_lt G X T (comp s' r) th (snd e)); [|exact FC].
        intros x Hx. symmetry. apply Eth. unfold evars. apply in_app_iff. right. exact Hx.
  - intros A s FB (e & th & tv & a & b & Ie & Ag & E & Hd & C & Ew & R).
    apply in_map_iff in Ie. destruct Ie as [[r e'] [Ee' Hre]]. simpl in Ee'. subst e'.
    destruct (GW _ Hre) as [I Fr]. pose proof (OK _ Hre) as O. simpl fst in *. simpl snd in *.
    apply gfresh_app in Fr. destruct Fr as [Frh FrB].
    set (V := G ++ vars_head h ++ flat_map vars_bodyelem B ++ vars_term w) in *.
    set (s' := merge r (evars e) s th).
    assert (Off: forall z, In z V -> s' z = s z).
    { intros z Hz. apply merge_off. intros y Hy Ey. destruct (in_dec string_dec y G) as [g|g].
      - rewrite (eo_fix _ _ _ _ O y Hy g) in Ey. subst z. symmetry. apply Ag. exact g.
      - exfalso. apply (eo_fresh _ _ _ _ O y Hy g). rewrite Ey. exact Hz. }
    assert (On: forall y, In y (evars e) -> comp s' r y = th y).
    { intros y Hy. unfold comp. apply merge_ren; [exact (eo_inj _ _ _ _ O) | exact Hy]. }
    assert (Hh: head_sat (G' (r, e)) X T s' h).
    { apply (A (r, e) Hre). apply body_sat_app. split.
      - apply (body_sat_gweak sym_lt G (G' (r, e)) B I FrB).
        apply (body_sat_coincide sym_lt G X T s s' B); [| |exact FB].
        + intros x Hx. symmetry. apply Off. unfold V. rewrite !in_app_iff. right. right. left.
          apply in_flat_map in Hx. destruct Hx as [b0 [Hb0 Hx]]. apply in_flat_map. exists b0. split; [exact Hb0|].
          apply gvars_sub_vars_bodyelem. exact Hx.
        + intros x Hx _. symmetry. apply Off. unfold V. rewrite !in_app_iff. right. right. left. exact Hx.
      - unfold elem_body, ren_elem. simpl fst. simpl snd. apply body_sat_app. split.
        + apply body_sat_blits. apply (lits_sat_ren (G' (r, e)) G X T s' r (snd e) (eo_simple _ _ _ _ O)).
          apply (lits_sat_coincide sym_lt G X T th (comp s' r) (snd e)); [|exact C].
          intros x Hx. symmetry. apply On. unfold evars. apply in_app_iff. right. exact Hx.
        + apply body_sat_one. simpl. rewrite hd_map_ren. apply cmp_lit_sat. exists a, b. split; [|split; [|exact R]].
          * rewrite <- Ew. apply eval_coincide. intros x Hx. apply Off. unfold V. rewrite !in_app_iff. right. right. right. exact Hx.
          * rewrite eval_ren. destruct (fst e) as [|t ts] eqn:Ee; [exfalso; exact (eo_terms _ _ _ _ O Ee)|]. simpl.
            simpl in E. destruct (eval th t) as [v|] eqn:Et; [|discriminate E]. destruct (eval_list th ts); [|discriminate E].
            injection E as <-. simpl in Hd. injection Hd as <-. rewrite <- Et. apply eval_coincide.
            intros x Hx. apply On. unfold evars. rewrite Ee. simpl. rewrite !in_app_iff. left. left. exact Hx. }
    apply (head_sat_gweak sym_lt G (G' (r, e)) h I Frh) in Hh.
    apply (head_sat_coincide sym_lt G X T s s' h); [| |exact Hh].
    + intros x Hx. symmetry. apply Off. unfold V. rewrite !in_app_iff. right. left. apply gvars_sub_vars_head. exact Hx.
    + intros x Hx _. symmetry. apply Off. unfold V. rewrite !in_app_iff. right. left. exact Hx.
Qed.

End Rewrite.

(* ====================================================================================== *)
(* 3. Rules                                                                               *)
(* ====================================================================================== *)
Section Rules.
Variable sym_lt : sym -> sym -> Prop.
Hypothesis ord : sym_order sym_lt.
Notation lit_sat := (lit_sat sym_lt).
Notation lits_sat := (lits_sat sym_lt).
Notation body_sat := (body_sat sym_lt).
Notation head_sat := (head_sat sym_lt).
Notation rule_sat := (rule_sat sym_lt).
Notation stmt_sat := (stmt_sat sym_lt).
Notation prog_sat := (prog_sat sym_lt).
Notation stable := (stable sym_lt).
Notation elems_tuples := (elems_tuples sym_lt).
Notation has_ext := (has_ext sym_lt).
Notation elem_fires := (elem_fires sym_lt).

Definition rest_vars (G: list string) (h: head) (B: list bodyelem) (w: term) : list string :=
  G ++ vars_head h ++ flat_map vars_bodyelem B ++ vars_term w.
Definition gweak_ok (G G': list string) (h: head) (B: list bodyelem) : Prop :=
  incl G G' /\ gfresh G G' (vars_head h ++ flat_map vars_bodyelem B).

(* The positive literal, guard in the aggregate's own direction.
   H, T        an HT interpretation (H included in T)
   res         the elements, each with the renaming the pass applies to it
   G, G' re    global variables of the source rule / of the rule generated for the element re
   has_ext     the tuple sets have a maximum (#max) / minimum (#min) or are empty: true of finite sets
               (fin_heads_has_ext); Sat.agg_value gives no value to #max of an unbounded set
   bound       `#inf <= #max{..}` / `#sup >= #min{..}` hold over the empty set although no element does
               (bad_bound); no condition for the strict operators *)
Theorem simple_translation_rule_sound G H T h B f c w (res: list ((string -> string) * belem)) G' :
  subi H T -> own_dir f c ->
  (forall re, In re res -> elem_ok G (rest_vars G h B w) (fst re) (snd re)) ->
  (forall re, In re res -> gweak_ok G (G' re) h B) ->
  (forall s, has_ext f (elems_tuples G H T s (map snd res))) ->
  (forall s, has_ext f (elems_tuples G T T s (map snd res))) ->
  (forall X s a, body_sat G X T s B -> eval s w = Some a -> bad_bound f c <> Some a) ->
  (rule_sat G H T h (B ++ [BLit (agg_lit NoSign c w f (map snd res))]) <->
   forall re, In re res -> rule_sat (G' re) H T h (B ++ elem_body NoSign c w (ren_elem (fst re) (snd re)))).
Proof.
  intros S D OK GW XH XT Hw.
  assert (K: forall X, (forall s tv, elems_tuples G X T s (map snd res) tv -> elems_tuples G T T s (map snd res) tv) ->
             (forall s, has_ext f (elems_tuples G X T s (map snd res))) ->
             ((forall s, body_sat G X T s (B ++ [BLit (agg_lit NoSign c w f (map snd res))]) -> head_sat G X T s h) <->
              (forall re, In re res -> forall s,
                 body_sat (G' re) X T s (B ++ elem_body NoSign c w (ren_elem (fst re) (snd re))) -> head_sat (G' re) X T s h))).
  { intros X Sub HX. rewrite <- (simple_component sym_lt G X T h B NoSign c w res G' OK GW).
    split; intros A s FB.
    - intro F. apply A. apply body_sat_app. split; [exact FB|]. apply body_sat_one. simpl.
      apply (agg_pos_fires_bwd sym_lt ord G X T s c w f _ D (Sub s) (HX s) (XT s) F).
    - apply body_sat_app in FB. destruct FB as [FB FA]. apply body_sat_one in FA. simpl in FA. apply (A s FB).
      apply (agg_pos_fires_fwd sym_lt ord G X T s c w f _ D); [|exact FA]. intros a Ea. exact (Hw X s a FB Ea). }
  rewrite rule_sat_split.
  rewrite (K H (fun s => tuples_persist sym_lt G H T s _ S) XH), (K T (fun s tv F => F) XT).
  split.
  - intros [A1 A2] re Hre. apply rule_sat_split. split; [apply A1 | apply A2]; exact Hre.
  - intro A. split; intros re Hre; destruct (proj1 (rule_sat_split sym_lt _ _ _ _ _) (A re Hre)) as [A1 A2]; assumption.
Qed.

(* item 1 of the task, #max with a lower bound *)
Corollary max_lower_bound_rule_sound G H T h B c w res G' :
  subi H T -> (c = CLt \/ c = CLe) ->
  (forall re, In re res -> elem_ok G (rest_vars G h B w) (fst re) (snd re)) ->
  (forall re, In re res -> gweak_ok G (G' re) h B) ->
  (forall s, has_max sym_lt (elems_tuples G H T s (map snd res))) ->
  (forall s, has_max sym_lt (elems_tuples G T T s (map snd res))) ->
  (c = CLe -> forall X s, body_sat G X T s B -> eval s w <> Some SInf) ->
  (rule_sat G H T h (B ++ [BLit (Lit NoSign (ABodyAgg (Some (c, w)) FMax (map snd res) None))]) <->
   forall re, In re res -> rule_sat (G' re) H T h (B ++ elem_body NoSign c w (ren_elem (fst re) (snd re)))).
Proof.
  intros S Hc OK GW XH XT Hw. apply (simple_translation_rule_sound G H T h B FMax c w res G' S); try assumption.
  - left. split; [reflexivity | exact Hc].
  - intros X s a FB Ea. destruct Hc as [-> | ->]; simpl; [discriminate|].
    intro E. injection E as <-. exact (Hw eq_refl X s FB Ea).
Qed.

(* ... and the mirrored statement, #min with an upper bound *)
Corollary min_upper_bound_rule_sound G H T h B c w res G' :
  subi H T -> (c = CGt \/ c = CGe) ->
  (forall re, In re res -> elem_ok G (rest_vars G h B w) (fst re) (snd re)) ->
  (forall re, In re res -> gweak_ok G (G' re) h B) ->
  (forall s, has_min sym_lt (elems_tuples G H T s (map snd res))) ->
  (forall s, has_min sym_lt (elems_tuples G T T s (map snd res))) ->
  (c = CGe -> forall X s, body_sat G X T s B -> eval s w <> Some SSup) ->
  (rule_sat G H T h (B ++ [BLit (Lit NoSign (ABodyAgg (Some (c, w)) FMin (map snd res) None))]) <->
   forall re, In re res -> rule_sat (G' re) H T h (B ++ elem_body NoSign c w (ren_elem (fst re) (snd re)))).
Proof.
  intros S Hc OK GW XH XT Hw. apply (simple_translation_rule_sound G H T h B FMin c w res G' S); try assumption.
  - right. split; [reflexivity | exact Hc].
  - intros X s a FB Ea. destruct Hc as [-> | ->]; simpl; [discriminate|].
    intro E. injection E as <-. exact (Hw eq_refl X s FB Ea).
Qed.

(* The negated literal (`not w < #min{..}`, `not w <= #min{..}`, `not w > #max{..}`, `not w >= #max{..}`) on a TOTAL
   interpretation: the rewrite is sound classically.  Extra conditions: the bound is defined whenever the rest of the
   body holds (Sat.v reads `not w < #min{..}` with an undefined w as true; gringo drops the instance), and
   `not #sup < #min{}` / `not #inf > #max{}` hold over the empty set (neg_bad_bound). *)
Theorem negated_simple_translation_total_sound G T h B f c w (res: list ((string -> string) * belem)) G' :
  opp_dir f c ->
  (forall re, In re res -> elem_ok G (rest_vars G h B w) (fst re) (snd re)) ->
  (forall re, In re res -> gweak_ok G (G' re) h B) ->
  (forall s, has_ext f (elems_tuples G T T s (map snd res))) ->
  (forall s, body_sat G T T s B -> eval s w <> None) ->
  (forall s a, body_sat G T T s B -> eval s w = Some a -> neg_bad_bound f c <> Some a) ->
  (rule_sat G T T h (B ++ [BLit (agg_lit Neg c w f (map snd res))]) <->
   forall re, In re res -> rule_sat (G' re) T T h (B ++ elem_body Neg c w (ren_elem (fst re) (snd re)))).
Proof.
  intros D OK GW XT Dw Hw.
  assert (K: (forall s, body_sat G T T s (B ++ [BLit (agg_lit Neg c w f (map snd res))]) -> head_sat G T T s h) <->
             (forall re, In re res -> forall s,
                 body_sat (G' re) T T s (B ++ elem_body Neg c w (ren_elem (fst re) (snd re))) -> head_sat (G' re) T T s h)).
  { rewrite <- (simple_component sym_lt G T T h B Neg c w res G' OK GW).
    split; intros A s FB.
    - intro F. apply A. apply body_sat_app. split; [exact FB|]. apply body_sat_one. simpl.
      apply (agg_neg_fires sym_lt ord G T T s c w f _ D (XT s) (Dw s FB) (fun a => Hw s a FB)). exact F.
    - apply body_sat_app in FB. destruct FB as [FB FA]. apply body_sat_one in FA. simpl in FA. apply (A s FB).
      apply (agg_neg_fires sym_lt ord G T T s c w f _ D (XT s) (Dw s FB) (fun a => Hw s a FB)). exact FA. }
  rewrite rule_sat_split. split.
  - intros [A _] re Hre. apply rule_sat_split. split; apply (proj1 K A re Hre).
  - intro A. assert (A': forall s, body_sat G T T s (B ++ [BLit (agg_lit Neg c w f (map snd res))]) -> head_sat G T T s h).
    { apply (proj2 K). intros re Hre. exact (proj1 (proj1 (rule_sat_split sym_lt _ _ _ _ _) (A re Hre))). }
    split; exact A'.
Qed.

(* The two directions separately: which hypothesis is used where. *)
(* models of the generated rules are models of the source rule: no finiteness, no H <= T; only the bound *)
Theorem simple_translation_rule_targets_imply_source G H T h B f c w (res: list ((string -> string) * belem)) G' :
  own_dir f c ->
  (forall re, In re res -> elem_ok G (rest_vars G h B w) (fst re) (snd re)) ->
  (forall re, In re res -> gweak_ok G (G' re) h B) ->
  (forall X s a, body_sat G X T s B -> eval s w = Some a -> bad_bound f c <> Some a) ->
  (forall re, In re res -> rule_sat (G' re) H T h (B ++ elem_body NoSign c w (ren_elem (fst re) (snd re)))) ->
  rule_sat G H T h (B ++ [BLit (agg_lit NoSign c w f (map snd res))]).
Proof.
  intros D OK GW Hw A. apply rule_sat_split.
  assert (K: forall X, (forall re, In re res -> forall s,
                 body_sat (G' re) X T s (B ++ elem_body NoSign c w (ren_elem (fst re) (snd re))) -> head_sat (G' re) X T s h) ->
             forall s, body_sat G X T s (B ++ [BLit (agg_lit NoSign c w f (map snd res))]) -> head_sat G X T s h).
  { intros X AX s FB. apply body_sat_app in FB. destruct FB as [FB FA]. apply body_sat_one in FA. simpl in FA.
    apply (proj2 (simple_component sym_lt G X T h B NoSign c w res G' OK GW) AX s FB).
    apply (agg_pos_fires_fwd sym_lt ord G X T s c w f _ D); [|exact FA]. intros a Ea. exact (Hw X s a FB Ea). }
  split; apply K; intros re Hre; destruct (proj1 (rule_sat_split sym_lt _ _ _ _ _) (A re Hre)) as [A1 A2]; assumption.
Qed.

(* models of the source rule are models of the generated rules: needs the extrema (finiteness), not the bound *)
Theorem simple_translation_rule_source_implies_targets G H T h B f c w (res: list ((string -> string) * belem)) G' :
  subi H T -> own_dir f c ->
  (forall re, In re res -> elem_ok G (rest_vars G h B w) (fst re) (snd re)) ->
  (forall re, In re res -> gweak_ok G (G' re) h B) ->
  (forall s, has_ext f (elems_tuples G H T s (map snd res))) ->
  (forall s, has_ext f (elems_tuples G T T s (map snd res))) ->
  rule_sat G H T h (B ++ [BLit (agg_lit NoSign c w f (map snd res))]) ->
  forall re, In re res -> rule_sat (G' re) H T h (B ++ elem_body NoSign c w (ren_elem (fst re) (snd re))).
Proof.
  intros S D OK GW XH XT A re Hre. apply rule_sat_split. apply rule_sat_split in A. destruct A as [A1 A2].
  assert (K: forall X, (forall s tv, elems_tuples G X T s (map snd res) tv -> elems_tuples G T T s (map snd res) tv) ->
             (forall s, has_ext f (elems_tuples G X T s (map snd res))) ->
             (forall s, body_sat G X T s (B ++ [BLit (agg_lit NoSign c w f (map snd res))]) -> head_sat G X T s h) ->
             forall s, body_sat (G' re) X T s (B ++ elem_body NoSign c w (ren_elem (fst re) (snd re))) -> head_sat (G' re) X T s h).
  { intros X Sub HX AX. apply (proj1 (simple_component sym_lt G X T h B NoSign c w res G' OK GW)); [|exact Hre].
    intros s FB F. apply AX. apply body_sat_app. split; [exact FB|]. apply body_sat_one. simpl.
    apply (agg_pos_fires_bwd sym_lt ord G X T s c w f _ D (Sub s) (HX s) (XT s) F). }
  split; [apply (K H (fun s => tuples_persist sym_lt G H T s _ S) XH A1) | apply (K T (fun s tv F => F) XT A2)].
Qed.

(* The negated literal in HERE-AND-THERE: only one direction survives.  Every HT model of the source rule is an HT model
   of the generated rules (no side condition beyond the renaming); the converse is refuted below
   (negated_simple_translation_ht_refuted).  Hence the pass can lose answer sets in the negated case, never gain any
   (negated_simple_translation_stable_partial). *)
Lemma elem_fires_persist G H T s sg c w es : subi H T -> elem_fires G H T s sg c w es -> elem_fires G T T s sg c w es.
Proof.
  intros S (e & th & tv & a & b & Ie & Ag & E & Hd & C & Ew & R). exists e, th, tv, a, b.
  repeat (split; [assumption|]). split; [|split; assumption].
  exact (CleanupSpec.lits_sat_persist_proof sym_lt G H T th (snd e) S C).
Qed.

Theorem negated_simple_translation_ht_partial G H T h B f c w (res: list ((string -> string) * belem)) G' :
  subi H T -> opp_dir f c ->
  (forall re, In re res -> elem_ok G (rest_vars G h B w) (fst re) (snd re)) ->
  (forall re, In re res -> gweak_ok G (G' re) h B) ->
  rule_sat G H T h (B ++ [BLit (agg_lit Neg c w f (map snd res))]) ->
  forall re, In re res -> rule_sat (G' re) H T h (B ++ elem_body Neg c w (ren_elem (fst re) (snd re))).
Proof.
  intros S D OK GW A re Hre. apply rule_sat_split. apply rule_sat_split in A. destruct A as [A1 A2].
  assert (K: forall X, subi X T ->
             (forall s, body_sat G X T s (B ++ [BLit (agg_lit Neg c w f (map snd res))]) -> head_sat G X T s h) ->
             forall s, body_sat (G' re) X T s (B ++ elem_body Neg c w (ren_elem (fst re) (snd re))) -> head_sat (G' re) X T s h).
  { intros X SX AX. apply (proj1 (simple_component sym_lt G X T h B Neg c w res G' OK GW)); [|exact Hre].
    intros s FB F. apply AX. apply body_sat_app. split; [exact FB|]. apply body_sat_one. simpl.
    rewrite agg_lit_sat. simpl. rewrite agg_holds_left.
    apply (elem_fires_persist G X T s Neg c w _ SX) in F. apply elem_fires_heads in F. destruct F as [a [Ew R]].
    intros [a' [Ew' V]]. rewrite Ew in Ew'. injection Ew' as <-.
    exact (opp_bound_bwd sym_lt ord f c _ a D R V). }
  split; [apply (K H S A1) | apply (K T (fun a Ha => Ha) A2)].
Qed.

(* ---- the global variables of source and generated rules ---- *)
Lemma in_vars_vmap_ren r x : forall t, In x (vars_term (vmap_term (ren r) t)) -> exists y, In y (vars_term t) /\ x = r y.
Proof.
  intro t. induction t as [z|k|o t IHt|o a b IHa IHb|a b IHa IHb|n xs e IHxs|xs IHxs] using NormalizeSpec.term_ind'; simpl.
  - intros [<-|[]]. exists z. split; [left; reflexivity | reflexivity].
  - intros [].
  - exact IHt.
  - rewrite in_app_iff. intros [Hx|Hx]; [destruct (IHa Hx) as [y [Hy E]] | destruct (IHb Hx) as [y [Hy E]]];
      exists y; (split; [apply in_app_iff; auto | exact E]).
  - rewrite in_app_iff. intros [Hx|Hx]; [destruct (IHa Hx) as [y [Hy E]] | destruct (IHb Hx) as [y [Hy E]]];
      exists y; (split; [apply in_app_iff; auto | exact E]).
  - intro Hx. apply in_flat_map in Hx. destruct Hx as [t' [Ht' Hx]]. apply in_map_iff in Ht'. destruct Ht' as [t [<- Ht]].
    rewrite Forall_forall in IHxs. destruct (IHxs t Ht Hx) as [y [Hy E]]. exists y. split; [|exact E].
    apply in_flat_map. exists t. split; assumption.
  - intro Hx. apply in_flat_map in Hx. destruct Hx as [t' [Ht' Hx]]. apply in_map_iff in Ht'. destruct Ht' as [t [<- Ht]].
    rewrite Forall_forall in IHxs. destruct (IHxs t Ht Hx) as [y [Hy E]]. exists y. split; [|exact E].
    apply in_flat_map. exists t. split; assumption.
Qed.

Lemma in_vars_guards_ren r x gs : In x (flat_map vars_guard (map (vmap_guard (ren r)) gs)) ->
  exists y, In y (flat_map vars_guard gs) /\ x = r y.
Proof.
  intro Hx. apply in_flat_map in Hx. destruct Hx as [g' [Hg' Hx]]. apply in_map_iff in Hg'. destruct Hg' as [g [<- Hg]].
  unfold vars_guard, vmap_guard in Hx. simpl in Hx. destruct (in_vars_vmap_ren r x _ Hx) as [y [Hy E]].
  exists y. split; [|exact E]. apply in_flat_map. exists g. split; assumption.
Qed.

Lemma in_vars_ren_lit r x c : simple_lit_b c = true -> In x (vars_lit (ren_lit r c)) -> exists y, In y (vars_lit c) /\ x = r y.
Proof.
  destruct c as [sg [t|t gs|b|lg f es rg|lg es rg|tx]]; intro S; try discriminate S; unfold ren_lit; simpl.
  - apply in_vars_vmap_ren.
  - rewrite in_app_iff. intros [Hx|Hx].
    + destruct (in_vars_vmap_ren r x _ Hx) as [y [Hy E]]. exists y. split; [apply in_app_iff; left; exact Hy | exact E].
    + destruct (in_vars_guards_ren r x _ Hx) as [y [Hy E]]. exists y. split; [apply in_app_iff; right; exact Hy | exact E].
  - intros [].
Qed.

Lemma in_gvars_elem_body sg c w r e x : forallb simple_lit_b (snd e) = true ->
  In x (flat_map gvars_bodyelem (elem_body sg c w (ren_elem r e))) ->
  In x (vars_term w) \/ exists y, In y (evars e) /\ x = r y.
Proof.
  intros S Hx. unfold elem_body, ren_elem in Hx. simpl fst in Hx. simpl snd in Hx. rewrite flat_map_app, in_app_iff in Hx.
  rewrite forallb_forall in S. destruct Hx as [Hx|Hx].
  - right. apply in_flat_map in Hx. destruct Hx as [b [Hb Hx]]. apply in_map_iff in Hb. destruct Hb as [l' [<- Hl']].
    apply in_map_iff in Hl'. destruct Hl' as [l [<- Hl]]. simpl in Hx. apply gvars_sub_vars in Hx.
    destruct (in_vars_ren_lit r x l (S l Hl) Hx) as [y [Hy E]]. exists y. split; [|exact E].
    unfold evars. apply in_app_iff. right. apply in_flat_map. exists l. split; assumption.
  - simpl in Hx. rewrite app_nil_r, in_app_iff in Hx. destruct Hx as [Hx|Hx]; [left; exact Hx|]. rewrite app_nil_r in Hx. right.
    rewrite hd_map_ren in Hx. destruct (in_vars_vmap_ren r x _ Hx) as [y [Hy E]]. exists y. split; [|exact E].
    unfold evars. apply in_app_iff. left. destruct (fst e) as [|t ts]; [destruct Hy|]. simpl in *. apply in_app_iff. left. exact Hy.
Qed.

Lemma gvars_agg_rule h B sg c w f es :
  gvars_rule h (B ++ [BLit (agg_lit sg c w f es)]) = gvars_head h ++ flat_map gvars_bodyelem B ++ vars_term w.
Proof. unfold gvars_rule. rewrite flat_map_app. simpl. unfold vars_guard. simpl. rewrite !app_nil_r. reflexivity. Qed.

Lemma stmt_gweak_ok h B sg c w f es r e :
  elem_ok (gvars_rule h (B ++ [BLit (agg_lit sg c w f es)]))
          (rest_vars (gvars_rule h (B ++ [BLit (agg_lit sg c w f es)])) h B w) r e ->
  gweak_ok (gvars_rule h (B ++ [BLit (agg_lit sg c w f es)])) (gvars_rule h (B ++ elem_body sg c w (ren_elem r e))) h B.
Proof.
  intro O. rewrite gvars_agg_rule in *. split.
  - intros x Hx. unfold gvars_rule. rewrite flat_map_app. rewrite !in_app_iff in *.
    destruct Hx as [Hx|[Hx|Hx]]; auto. right. right. unfold elem_body. rewrite flat_map_app, in_app_iff. right.
    simpl. rewrite !in_app_iff. tauto.
  - intros x Hx Nx Hv. unfold gvars_rule in Hx. rewrite flat_map_app in Hx. rewrite !in_app_iff in Hx.
    destruct Hx as [Hx|[Hx|Hx]]; try (apply Nx; rewrite !in_app_iff; auto; fail).
    destruct (in_gvars_elem_body sg c w r e x (eo_simple _ _ _ _ O) Hx) as [Hw|[y [Hy E]]].
    + apply Nx. rewrite !in_app_iff. auto.
    + subst x. destruct (in_dec string_dec y (gvars_head h ++ flat_map gvars_bodyelem B ++ vars_term w)) as [g|g].
      * apply Nx. rewrite (eo_fix _ _ _ _ O y Hy g). exact g.
      * apply (eo_fresh _ _ _ _ O y Hy g). unfold rest_vars. rewrite !in_app_iff in *. tauto.
Qed.

(* ---- statements ---- *)
Definition source_stmt ln h B sg c w f (res: list ((string -> string) * belem)) : stmt :=
  SRule ln h (B ++ [BLit (agg_lit sg c w f (map snd res))]).
Definition target_stmts ln h B sg c w (res: list ((string -> string) * belem)) : list stmt :=
  map (fun re => SRule ln h (B ++ elem_body sg c w (ren_elem (fst re) (snd re)))) res.
Definition source_gvars h B sg c w f (res: list ((string -> string) * belem)) : list string :=
  gvars_rule h (B ++ [BLit (agg_lit sg c w f (map snd res))]).
(* the side conditions on all elements, relative to the global variables of the source statement *)
Definition elems_ok h B sg c w f (res: list ((string -> string) * belem)) : Prop :=
  forall re, In re res ->
    elem_ok (source_gvars h B sg c w f res) (rest_vars (source_gvars h B sg c w f res) h B w) (fst re) (snd re).

Theorem simple_translation_stmt_sound ln h B f c w res H T :
  subi H T -> own_dir f c -> elems_ok h B NoSign c w f res ->
  (forall s, has_ext f (elems_tuples (source_gvars h B NoSign c w f res) H T s (map snd res))) ->
  (forall s, has_ext f (elems_tuples (source_gvars h B NoSign c w f res) T T s (map snd res))) ->
  (forall X s a, body_sat (source_gvars h B NoSign c w f res) X T s B -> eval s w = Some a -> bad_bound f c <> Some a) ->
  (stmt_sat H T (source_stmt ln h B NoSign c w f res) <->
   forall st, In st (target_stmts ln h B NoSign c w res) -> stmt_sat H T st).
Proof.
  intros S D OK XH XT Hw. unfold source_stmt, target_stmts. simpl.
  rewrite (simple_translation_rule_sound _ H T h B f c w res
             (fun re => gvars_rule h (B ++ elem_body NoSign c w (ren_elem (fst re) (snd re)))) S D OK); try assumption.
  - split.
    + intros A st Hst. apply in_map_iff in Hst. destruct Hst as [re [<- Hre]]. simpl. apply A. exact Hre.
    + intros A re Hre. apply (A (SRule ln h (B ++ elem_body NoSign c w (ren_elem (fst re) (snd re))))).
      apply in_map_iff. exists re. split; [reflexivity | exact Hre].
  - intros re Hre. apply stmt_gweak_ok. apply OK. exact Hre.
Qed.

Theorem negated_simple_translation_total_stmt_sound ln h B f c w res T :
  opp_dir f c -> elems_ok h B Neg c w f res ->
  (forall s, has_ext f (elems_tuples (source_gvars h B Neg c w f res) T T s (map snd res))) ->
  (forall s, body_sat (source_gvars h B Neg c w f res) T T s B -> eval s w <> None) ->
  (forall s a, body_sat (source_gvars h B Neg c w f res) T T s B -> eval s w = Some a -> neg_bad_bound f c <> Some a) ->
  (stmt_sat T T (source_stmt ln h B Neg c w f res) <->
   forall st, In st (target_stmts ln h B Neg c w res) -> stmt_sat T T st).
Proof.
  intros D OK XT Dw Hw. unfold source_stmt, target_stmts. simpl.
  rewrite (negated_simple_translation_total_sound _ T h B f c w res
             (fun re => gvars_rule h (B ++ elem_body Neg c w (ren_elem (fst re) (snd re)))) D OK); try assumption.
  - split.
    + intros A st Hst. apply in_map_iff in Hst. destruct Hst as [re [<- Hre]]. simpl. apply A. exact Hre.
    + intros A re Hre. apply (A (SRule ln h (B ++ elem_body Neg c w (ren_elem (fst re) (snd re))))).
      apply in_map_iff. exists re. split; [reflexivity | exact Hre].
  - intros re Hre. apply stmt_gweak_ok. apply OK. exact Hre.
Qed.

(* the aggregate literal anywhere in the body (the pass removes it and appends the new literals at the end) *)
Lemma stmt_sat_perm ln ln' h b b' H T : Permutation b b' -> (stmt_sat H T (SRule ln h b) <-> stmt_sat H T (SRule ln' h b')).
Proof.
  intro P. simpl.
  rewrite (rule_sat_gext sym_lt (gvars_rule h b) (gvars_rule h b') H T h b).
  - apply rule_sat_perm. exact P.
  - intro x. unfold gvars_rule. rewrite !in_app_iff, !in_flat_map.
    split; (intros [Hx|[e [He Hx]]]; [left; exact Hx | right; exists e; split; [|exact Hx]]);
      [exact (Permutation_in e P He) | exact (Permutation_in e (Permutation_sym P) He)].
Qed.

Corollary stmt_sat_agg_position ln h B1 B2 l H T :
  stmt_sat H T (SRule ln h (B1 ++ BLit l :: B2)) <-> stmt_sat H T (SRule ln h ((B1 ++ B2) ++ [BLit l])).
Proof.
  apply stmt_sat_perm. rewrite <- app_assoc. apply Permutation_app_head. change (BLit l :: B2) with ([BLit l] ++ B2).
  apply Permutation_app_comm.
Qed.

(* ---- programs ---- *)
Lemma prog_sat_replace P1 P2 st sts H T :
  (stmt_sat H T st <-> forall s', In s' sts -> stmt_sat H T s') ->
  (prog_sat H T (P1 ++ [st] ++ P2) <-> prog_sat H T (P1 ++ sts ++ P2)).
Proof.
  intro E. unfold Sat.prog_sat. split; intros A s0 Hs; rewrite !in_app_iff in Hs.
  - destruct Hs as [Hs|[Hs|Hs]]; try (apply A; rewrite !in_app_iff; simpl; tauto).
    apply (proj1 E); [|exact Hs]. apply A. rewrite !in_app_iff. simpl. tauto.
  - destruct Hs as [Hs|[[<-|[]]|Hs]]; try (apply A; rewrite !in_app_iff; simpl; tauto).
    apply (proj2 E). intros s' Hs'. apply A. rewrite !in_app_iff. tauto.
Qed.

Lemma replace_stmt_stable P1 P2 st sts I T :
  (forall H, subi H T -> (stmt_sat H T st <-> forall s', In s' sts -> stmt_sat H T s')) ->
  (stable (P1 ++ [st] ++ P2) I T <-> stable (P1 ++ sts ++ P2) I T).
Proof.
  intro E. unfold Sat.stable.
  rewrite (prog_sat_replace P1 P2 st sts T T (E T (subi_refl T))).
  split; intros [M Min]; (split; [exact M|]); intros H S PS FH; apply (Min H S); try exact FH;
    apply (prog_sat_replace P1 P2 st sts H T (E H S)); exact PS.
Qed.

(* One candidate answer set T (no axiom): the tuple sets of the aggregate have extrema under T and all its subsets. *)
Theorem simple_translation_stable_sound P1 P2 ln h B f c w res I T :
  own_dir f c -> elems_ok h B NoSign c w f res ->
  (forall H s, subi H T -> has_ext f (elems_tuples (source_gvars h B NoSign c w f res) H T s (map snd res))) ->
  (forall X s a, body_sat (source_gvars h B NoSign c w f res) X T s B -> eval s w = Some a -> bad_bound f c <> Some a) ->
  (stable (P1 ++ [source_stmt ln h B NoSign c w f res] ++ P2) I T <->
   stable (P1 ++ target_stmts ln h B NoSign c w res ++ P2) I T).
Proof.
  intros D OK XH Hw. apply replace_stmt_stable. intros H S.
  apply simple_translation_stmt_sound; try assumption.
  - intro s. apply XH. exact S.
  - intro s. apply XH. apply subi_refl.
Qed.

(* the negated case at program level: every answer set of the translated program is one of the source program *)
Theorem negated_simple_translation_stable_partial P1 P2 ln h B f c w res I T :
  opp_dir f c -> elems_ok h B Neg c w f res ->
  (forall s, has_ext f (elems_tuples (source_gvars h B Neg c w f res) T T s (map snd res))) ->
  (forall s, body_sat (source_gvars h B Neg c w f res) T T s B -> eval s w <> None) ->
  (forall s a, body_sat (source_gvars h B Neg c w f res) T T s B -> eval s w = Some a -> neg_bad_bound f c <> Some a) ->
  stable (P1 ++ target_stmts ln h B Neg c w res ++ P2) I T ->
  stable (P1 ++ [source_stmt ln h B Neg c w f res] ++ P2) I T.
Proof.
  intros D OK XT Dw Hw [[PT FT] Min].
  pose proof (negated_simple_translation_total_stmt_sound ln h B f c w res T D OK XT Dw Hw) as ET.
  split; [split; [|exact FT]|].
  - apply (prog_sat_replace P1 P2 _ _ T T ET). exact PT.
  - intros H S PS FH. apply (Min H S); [|exact FH].
    intros st Hst. rewrite !in_app_iff in Hst. destruct Hst as [Hst|[Hst|Hst]]; try (apply PS; rewrite !in_app_iff; simpl; tauto).
    unfold target_stmts in Hst. apply in_map_iff in Hst. destruct Hst as [re [<- Hre]]. simpl.
    apply (negated_simple_translation_ht_partial (source_gvars h B Neg c w f res) H T h B f c w res
             (fun re => gvars_rule h (B ++ elem_body Neg c w (ren_elem (fst re) (snd re)))) S D OK); [| |exact Hre].
    + intros re' Hre'. apply stmt_gweak_ok. apply OK. exact Hre'.
    + apply (PS (source_stmt ln h B Neg c w f res)). rewrite !in_app_iff. simpl. tauto.
Qed.

(* classical corollary of the statement-level theorem: finitely many values under T suffice *)
Theorem simple_translation_stmt_sound_finite ln h B f c w res H T :
  subi H T -> own_dir f c -> elems_ok h B NoSign c w f res ->
  (forall s, fin_heads (elems_tuples (source_gvars h B NoSign c w f res) T T s (map snd res))) ->
  (forall X s a, body_sat (source_gvars h B NoSign c w f res) X T s B -> eval s w = Some a -> bad_bound f c <> Some a) ->
  (stmt_sat H T (source_stmt ln h B NoSign c w f res) <->
   forall st, In st (target_stmts ln h B NoSign c w res) -> stmt_sat H T st).
Proof.
  intros S D OK FT Hw.
  assert (Hf: f = FMax \/ f = FMin) by (destruct D as [[-> _]|[-> _]]; auto).
  assert (NE: forall e, In e (map snd res) -> fst e <> []).
  { intros e He. apply in_map_iff in He. destruct He as [re [<- Hre]]. exact (eo_terms _ _ _ _ (OK re Hre)). }
  apply simple_translation_stmt_sound; try assumption; intro s; apply (fin_heads_has_ext sym_lt ord f _ Hf);
    try (apply tuples_nonempty; exact NE); [|exact (FT s)].
  apply (fin_heads_sub (elems_tuples (source_gvars h B NoSign c w f res) T T s (map snd res))); [|exact (FT s)].
  apply tuples_persist. exact S.
Qed.

Lemma elems_ok_nonempty h B sg c w f res : elems_ok h B sg c w f res -> forall e, In e (map snd res) -> fst e <> [].
Proof. intros OK e He. apply in_map_iff in He. destruct He as [re [<- Hre]]. exact (eo_terms _ _ _ _ (OK re Hre)). Qed.

(* item 2 of the task.  Same answer sets under every set of facts, provided that in every answer set of either
   program the aggregate ranges over finitely many values (classical: a finite set has a maximum or is empty). *)
Theorem simple_translation_program_sound P1 P2 ln h B f c w res :
  own_dir f c -> elems_ok h B NoSign c w f res ->
  (forall I T, stable (P1 ++ [source_stmt ln h B NoSign c w f res] ++ P2) I T \/
               stable (P1 ++ target_stmts ln h B NoSign c w res ++ P2) I T ->
     forall s, fin_heads (elems_tuples (source_gvars h B NoSign c w f res) T T s (map snd res))) ->
  (forall X T s a, body_sat (source_gvars h B NoSign c w f res) X T s B -> eval s w = Some a -> bad_bound f c <> Some a) ->
  equiv_all sym_lt (P1 ++ [source_stmt ln h B NoSign c w f res] ++ P2) (P1 ++ target_stmts ln h B NoSign c w res ++ P2).
Proof.
  intros D OK Fin Hw I T.
  assert (Hf: f = FMax \/ f = FMin) by (destruct D as [[-> _]|[-> _]]; auto).
  assert (K: (forall s, fin_heads (elems_tuples (source_gvars h B NoSign c w f res) T T s (map snd res))) ->
             (stable (P1 ++ [source_stmt ln h B NoSign c w f res] ++ P2) I T <->
              stable (P1 ++ target_stmts ln h B NoSign c w res ++ P2) I T)).
  { intro FT. apply simple_translation_stable_sound; try assumption; [|intros X s a; apply Hw].
    intros H s S. apply (fin_heads_has_ext sym_lt ord f _ Hf).
    - apply tuples_nonempty. exact (elems_ok_nonempty _ _ _ _ _ _ _ OK).
    - apply (fin_heads_sub (elems_tuples (source_gvars h B NoSign c w f res) T T s (map snd res))); [|exact (FT s)].
      apply tuples_persist. exact S. }
  split; intro St; apply K; try exact St; apply (Fin I T); [left | right]; exact St.
Qed.

End Rules.

(* ====================================================================================== *)
(* 4. Concrete rules: refutations where a hypothesis fails, and the executable model      *)
(* ====================================================================================== *)
Open Scope string_scope.
Open Scope list_scope.
Definition at0 (p: string) : lit := Lit NoSign (ASym (TFun p [] false)).
Definition at1 (p: string) (t: term) : lit := Lit NoSign (ASym (TFun p [t] false)).
Definition at2 (p: string) (t u: term) : lit := Lit NoSign (ASym (TFun p [t; u] false)).
Definition head_a : head := HLit (at0 "a").
(* the renaming of the pass on all examples: X -> X0, Y -> Y0 *)
Definition ren0 (z: string) : string := if String.eqb z "X" then "X0" else if String.eqb z "Y" then "Y0" else z.
Definition elem_X (p: string) : belem := ([TVar "X"], [at1 p (TVar "X")]).

Section Concrete.
Variable sym_lt : sym -> sym -> Prop.
Hypothesis ord : sym_order sym_lt.
Notation lit_sat := (lit_sat sym_lt).
Notation lits_sat := (lits_sat sym_lt).
Notation body_sat := (body_sat sym_lt).
Notation head_sat := (head_sat sym_lt).
Notation rule_sat := (rule_sat sym_lt).
Notation stmt_sat := (stmt_sat sym_lt).
Notation prog_sat := (prog_sat sym_lt).
Notation stable := (stable sym_lt).
Notation agg_holds := (agg_holds sym_lt).
Notation elems_tuples := (elems_tuples sym_lt).

Lemma at0_sat G H T s p : lit_sat G H T s (at0 p) <-> H (p, []).
Proof. unfold at0. rewrite lit_sat_sym_eq. unfold sym_atom_sat. rewrite eval_fun. simpl. tauto. Qed.
Lemma at1_sat G H T s p t v : eval s t = Some v -> (lit_sat G H T s (at1 p t) <-> H (p, [v])).
Proof. intro E. unfold at1. rewrite lit_sat_sym_eq. unfold sym_atom_sat. rewrite eval_fun. simpl. rewrite E. simpl. tauto. Qed.
Lemma at1_var_sat G H T s p x : lit_sat G H T s (at1 p (TVar x)) <-> H (p, [s x]).
Proof. apply at1_sat. reflexivity. Qed.
Lemma at2_var_sat G H T s p x y : lit_sat G H T s (at2 p (TVar x) (TVar y)) <-> H (p, [s x; s y]).
Proof. unfold at2. rewrite lit_sat_sym_eq. unfold sym_atom_sat. rewrite eval_fun. simpl. tauto. Qed.
Lemma head_a_sat G H T s : head_sat G H T s head_a <-> H ("a", []).
Proof. unfold head_a. simpl head_sat. apply at0_sat. Qed.

Lemma body_sat_lit_cons G H T s l B : body_sat G H T s (BLit l :: B) <-> lit_sat G H T s l /\ body_sat G H T s B.
Proof. rewrite body_sat_cons. simpl. tauto. Qed.
Lemma body_sat_nil' G H T s : body_sat G H T s [] <-> True.
Proof. split; [trivial | intro; constructor]. Qed.

(* the tuple set of  { X : p(X) }  with X local *)
Lemma tuples_unary G X T s p : ~ In "X" G ->
  forall tv, elems_tuples G X T s [elem_X p] tv <-> exists v, tv = [v] /\ X (p, [v]).
Proof.
  intros NG tv. rewrite elems_tuples_iff. split.
  - intros [e [[<-|[]] [th [Ag [E C]]]]]. simpl in E. injection E as <-. exists (th "X"). split; [reflexivity|].
    simpl in C. apply lits_sat_one in C. apply at1_var_sat in C. exact C.
  - intros [v [-> Xv]]. exists (elem_X p). split; [left; reflexivity|]. exists (upd s "X" v). split; [|split].
    + intros y Hy. symmetry. apply upd_other. intro E. subst y. exact (NG Hy).
    + simpl. rewrite upd_same. reflexivity.
    + simpl. apply lits_sat_one. apply at1_var_sat. rewrite upd_same. exact Xv.
Qed.

Lemma ren_elem_X p : ren_elem ren0 (elem_X p) = ([TVar "X0"], [at1 p (TVar "X0")]).
Proof. reflexivity. Qed.

(* ---------------------------------------------------------------------------------------
   (a) item 3 of the task: the singly negated literal.
         a :- not 1 < #min { X : p(X) }.        ~>        a :- p(X0), not 1 < X0.
       Sound on total interpretations (negated_simple_translation_total_sound), NOT an HT equivalence:
       with T = {a, p(0)}, H = {} the source rule is violated by (H,T), its translation is not; consequently
       `a :- not 1 < #min{X : p(X)}.  p(0) :- a.` has the answer set {a, p(0)} and the translated program has not
       (replayed with clingo: answer sets {} and {a,p(0)} before, {} after). *)
Definition neg_w : term := TSym (SNum 1).
Definition neg_res : list ((string -> string) * belem) := [(ren0, elem_X "p")].
Definition neg_src : stmt := source_stmt 1 head_a [] Neg CLt neg_w FMin neg_res.
Definition neg_tgts : list stmt := target_stmts 1 head_a [] Neg CLt neg_w neg_res.
Definition neg_tgt : stmt := SRule 1 head_a [BLit (at1 "p" (TVar "X0")); BLit (cmp_lit Neg CLt neg_w (TVar "X0"))].
Definition neg_fact_rule : stmt := SRule 1 (HLit (at1 "p" (TSym (SNum 0)))) [BLit (at0 "a")].
Definition neg_P : program := [base_stmt; neg_src; neg_fact_rule].
Definition neg_Q : program := [base_stmt; neg_tgt; neg_fact_rule].
Definition neg_T : interp := fun at_ => at_ = ("a", []) \/ at_ = ("p", [SNum 0]).
Definition neg_H : interp := fun _ => False.

Example neg_tgts_eq : neg_tgts = [neg_tgt].
Proof. reflexivity. Qed.

(* the program as serialised by vlib/ser.py from `a :- not 1 < #min{X : p(X)}. p(0) :- a.` *)
Example neg_parsed : neg_P =
  [(SOther "ASTType.Program" "#program base."); (SRule 1 (HLit (Lit NoSign (ASym (TFun "a" [] false)))) [(BLit (Lit Neg (ABodyAgg (Some (CLt, (TSym (SNum 1%Z)))) FMin [([(TVar "X")], [(Lit NoSign (ASym (TFun "p" [(TVar "X")] false)))])] None)))]); (SRule 1 (HLit (Lit NoSign (ASym (TFun "p" [(TSym (SNum 0%Z))] false)))) [(BLit (Lit NoSign (ASym (TFun "a" [] false))))])].
Proof. reflexivity. Qed.

(* what the executable model of MinMaxAggregator.execute returns (= what ngo returns) *)
Example neg_model : MinMax.mm_execute neg_P [] neg_P = Ok neg_Q.
Proof. vm_compute. reflexivity. Qed.

Lemma neg_body_true G X s : ~ In "X" G -> lit_sat G X neg_T s (agg_lit Neg CLt neg_w FMin [elem_X "p"]).
Proof.
  intro NG. rewrite agg_lit_sat. simpl. rewrite agg_holds_left. intros [a [E V]]. simpl in E. injection E as <-.
  revert V. apply (opp_bound_bwd sym_lt ord FMin CLt); [left; split; [reflexivity | left; reflexivity]|].
  exists (SNum 0). split.
  - exists [SNum 0]. split; [|reflexivity]. apply (tuples_unary G neg_T neg_T s "p" NG). exists (SNum 0).
    split; [reflexivity | right; reflexivity].
  - simpl. intro L. apply (lt_num _ ord) in L. lia.
Qed.

Lemma neg_src_unfold H T : stmt_sat H T neg_src <-> rule_sat [] H T head_a [BLit (agg_lit Neg CLt neg_w FMin [elem_X "p"])].
Proof. reflexivity. Qed.
Lemma neg_tgt_unfold H T : stmt_sat H T neg_tgt <->
  rule_sat ["X0"; "X0"] H T head_a [BLit (at1 "p" (TVar "X0")); BLit (cmp_lit Neg CLt neg_w (TVar "X0"))].
Proof. reflexivity. Qed.
Lemma neg_fact_unfold H T : stmt_sat H T neg_fact_rule <-> rule_sat [] H T (HLit (at1 "p" (TSym (SNum 0)))) [BLit (at0 "a")].
Proof. reflexivity. Qed.

Lemma neg_tgt_sat_H : stmt_sat neg_H neg_T neg_tgt.
Proof.
  apply neg_tgt_unfold. intro s. split; intro F.
  - apply body_sat_lit_cons in F. destruct F as [F _]. apply at1_var_sat in F. destruct F.
  - apply head_a_sat. left. reflexivity.
Qed.
Lemma neg_fact_sat_H : stmt_sat neg_H neg_T neg_fact_rule.
Proof.
  apply neg_fact_unfold. intro s. split; intro F.
  - apply body_sat_lit_cons in F. destruct F as [F _]. apply at0_sat in F. destruct F.
  - simpl head_sat. apply (at1_sat [] neg_T neg_T s "p" (TSym (SNum 0)) (SNum 0) eq_refl). right. reflexivity.
Qed.

Theorem negated_simple_translation_ht_refuted :
  subi neg_H neg_T /\ elems_ok head_a [] Neg CLt neg_w FMin neg_res /\
  ~ stmt_sat neg_H neg_T neg_src /\ (forall st, In st neg_tgts -> stmt_sat neg_H neg_T st).
Proof.
  split; [intros a []|]. split; [|split].
  - intros re [<-|[]]. simpl fst. simpl snd. constructor.
    + reflexivity.
    + discriminate.
    + intro th. exists []. reflexivity.
    + intros x _ [].
    + intros x _ _ [].
    + intros x y [<-|[<-|[]]] [<-|[<-|[]]] _; reflexivity.
  - intro R. apply neg_src_unfold in R. destruct (R (fun _ => SInf)) as [R1 _].
    assert (F: body_sat [] neg_H neg_T (fun _ => SInf) [BLit (agg_lit Neg CLt neg_w FMin [elem_X "p"])]).
    { apply body_sat_one. simpl. apply neg_body_true. intros []. }
    apply R1 in F. apply head_a_sat in F. exact F.
  - rewrite neg_tgts_eq. intros st [<-|[]]. exact neg_tgt_sat_H.
Qed.

(* the same rule on total interpretations: the theorem applies (its hypotheses are satisfiable) *)
Theorem negated_example_total_sound T :
  (forall s, has_min sym_lt (elems_tuples [] T T s [elem_X "p"])) ->
  (stmt_sat T T neg_src <-> stmt_sat T T neg_tgt).
Proof.
  intro HM.
  rewrite (negated_simple_translation_total_stmt_sound sym_lt ord 1 head_a [] FMin CLt neg_w neg_res T).
  - change (target_stmts 1 head_a [] Neg CLt neg_w neg_res) with [neg_tgt].
    split; [intro A; apply A; left; reflexivity | intros A st [<-|[]]; exact A].
  - left. split; [reflexivity | left; reflexivity].
  - apply (proj1 (proj2 negated_simple_translation_ht_refuted)).
  - exact HM.
  - intros s _. discriminate.
  - intros s a _ E. injection E as <-. discriminate.
Qed.

Theorem negated_simple_translation_program_refuted : stable neg_P [] neg_T /\ ~ stable neg_Q [] neg_T.
Proof.
  split.
  - split; [split|].
    + intros st [<-|[<-|[<-|[]]]].
      * exact Logic.I.
      * apply neg_src_unfold. intro s. split; intros _; apply head_a_sat; left; reflexivity.
      * apply neg_fact_unfold. intro s. split; intros _; simpl head_sat;
          apply (at1_sat [] neg_T neg_T s "p" (TSym (SNum 0)) (SNum 0) eq_refl); right; reflexivity.
    + intros a [].
    + intros H S PS _ at_ Tat.
      assert (Ha: H ("a", [])).
      { pose proof (PS neg_src (or_intror (or_introl eq_refl))) as R. apply neg_src_unfold in R.
        destruct (R (fun _ => SInf)) as [R1 _]. apply (head_a_sat [] H neg_T (fun _ => SInf)). apply R1.
        apply body_sat_one. simpl. apply neg_body_true. intros []. }
      assert (Hp: H ("p", [SNum 0])).
      { pose proof (PS neg_fact_rule (or_intror (or_intror (or_introl eq_refl)))) as R. apply neg_fact_unfold in R.
        destruct (R (fun _ => SInf)) as [R1 _].
        apply (at1_sat [] H neg_T (fun _ => SInf) "p" (TSym (SNum 0)) (SNum 0) eq_refl). apply R1.
        apply body_sat_one. simpl. apply at0_sat. exact Ha. }
      destruct Tat as [-> | ->]; assumption.
  - intros [_ Min]. apply (Min neg_H) with (a := ("a", [])).
    + intros a [].
    + intros st [<-|[<-|[<-|[]]]]; [exact Logic.I | exact neg_tgt_sat_H | exact neg_fact_sat_H].
    + intros a [].
    + left. reflexivity.
Qed.

(* the pass (the model's output) does not preserve the answer sets of this program *)
Corollary negated_pass_refuted : exists Q, MinMax.mm_execute neg_P [] neg_P = Ok Q /\ ~ equiv_all sym_lt neg_P Q.
Proof.
  exists neg_Q. split; [exact neg_model|]. intro E. destruct negated_simple_translation_program_refuted as [S N].
  apply N. apply (E [] neg_T). exact S.
Qed.


(* ---------------------------------------------------------------------------------------
   (b) the bad bound.   a :- w(W), W <= #max { X : foo(X) }.    ~>    a :- w(W), foo(X0), W <= X0.
       With w(#inf) and no foo atom the aggregate atom  #inf <= #max{} = #inf  holds, no element does.
       Every other hypothesis of simple_translation_stmt_sound holds.  Replayed with clingo:
       `{foo(X) : dom(X)}. a :- w(W), W <= #max{X : foo(X)}.` + `dom(1). w(#inf).` has the answer sets
       {a,..} and {a,foo(1),..}; after the pass {..} and {a,foo(1),..}. *)
Definition le_B : list bodyelem := [BLit (at1 "w" (TVar "W"))].
Definition le_res : list ((string -> string) * belem) := [(ren0, elem_X "foo")].
Definition le_src : stmt := source_stmt 1 head_a le_B NoSign CLe (TVar "W") FMax le_res.
Definition le_tgts : list stmt := target_stmts 1 head_a le_B NoSign CLe (TVar "W") le_res.
Definition le_tgt : stmt :=
  SRule 1 head_a [BLit (at1 "w" (TVar "W")); BLit (at1 "foo" (TVar "X0")); BLit (cmp_lit NoSign CLe (TVar "W") (TVar "X0"))].
Definition choice_foo : stmt := SRule 1 (HAgg None [(at1 "foo" (TVar "X"), [at1 "dom" (TVar "X")])] None) [].
Definition le_T : interp := fun at_ => at_ = ("w", [SInf]).

Example le_tgts_eq : le_tgts = [le_tgt].
Proof. reflexivity. Qed.
Example le_model : MinMax.mm_execute [base_stmt; choice_foo; le_src] [] [base_stmt; choice_foo; le_src] = Ok [base_stmt; choice_foo; le_tgt].
Proof. vm_compute. reflexivity. Qed.

Lemma le_src_unfold H T : stmt_sat H T le_src <->
  rule_sat ["W"; "W"] H T head_a [BLit (at1 "w" (TVar "W")); BLit (agg_lit NoSign CLe (TVar "W") FMax [elem_X "foo"])].
Proof. reflexivity. Qed.
Lemma le_tgt_unfold H T : stmt_sat H T le_tgt <->
  rule_sat ["W"; "X0"; "W"; "X0"] H T head_a
    [BLit (at1 "w" (TVar "W")); BLit (at1 "foo" (TVar "X0")); BLit (cmp_lit NoSign CLe (TVar "W") (TVar "X0"))].
Proof. reflexivity. Qed.

Theorem inf_bound_refuted :
  elems_ok head_a le_B NoSign CLe (TVar "W") FMax le_res /\
  (forall H s, subi H le_T ->
     has_max sym_lt (elems_tuples (source_gvars head_a le_B NoSign CLe (TVar "W") FMax le_res) H le_T s (map snd le_res))) /\
  ~ stmt_sat le_T le_T le_src /\ (forall st, In st le_tgts -> stmt_sat le_T le_T st).
Proof.
  assert (NoFoo: forall v, ~ le_T ("foo", [v])) by (intros v E; discriminate E).
  assert (Emp: forall G H s, subi H le_T -> ~ In "X" G -> forall tv, ~ elems_tuples G H le_T s [elem_X "foo"] tv).
  { intros G H s S NG tv St. apply (tuples_unary G H le_T s "foo" NG) in St. destruct St as [v [_ Hv]].
    exact (NoFoo v (S _ Hv)). }
  assert (NX: ~ In "X" ["W"; "W"]) by (intros [E|[E|[]]]; discriminate E).
  split; [|split; [|split]].
  - intros re [<-|[]]. simpl fst. simpl snd. constructor.
    + reflexivity.
    + discriminate.
    + intro th. exists []. reflexivity.
    + intros x [<-|[<-|[]]] [E|[E|[]]]; discriminate E.
    + intros x [<-|[<-|[]]] _; vm_compute; intuition discriminate.
    + intros x y [<-|[<-|[]]] [<-|[<-|[]]] _; reflexivity.
  - intros H s S. right. apply (Emp _ H s S). exact NX.
  - intro R. apply le_src_unfold in R. destruct (R (fun _ => SInf)) as [_ R2].
    assert (F: body_sat ["W"; "W"] le_T le_T (fun _ => SInf)
                 [BLit (at1 "w" (TVar "W")); BLit (agg_lit NoSign CLe (TVar "W") FMax [elem_X "foo"])]).
    { apply body_sat_lit_cons. split; [apply at1_var_sat; reflexivity|]. apply body_sat_one. simpl.
      rewrite agg_lit_sat. simpl.
      assert (A: agg_holds (fun _ => SInf) (Some (CLe, TVar "W")) FMax None (elems_tuples ["W"; "W"] le_T le_T (fun _ => SInf) [elem_X "foo"])).
      { apply agg_holds_left. exists SInf. split; [reflexivity|]. exists SInf. split; [|right; reflexivity].
        right. split; [|reflexivity]. apply Emp; [intros a Ha; exact Ha | exact NX]. }
      split; exact A. }
    apply R2 in F. apply head_a_sat in F. discriminate F.
  - rewrite le_tgts_eq. intros st [<-|[]]. apply le_tgt_unfold. intro s.
    split; intro F; apply body_sat_lit_cons in F; destruct F as [_ F]; apply body_sat_lit_cons in F; destruct F as [F _];
      apply at1_var_sat in F; exfalso; exact (NoFoo _ F).
Qed.


(* ---------------------------------------------------------------------------------------
   (c) the dropped tuple terms.   a :- 14 < #max { X, 1/Y : foo(X,Y) }.    ~>    a :- foo(X0,Y0), 14 < X0.
       Only the first term of the tuple survives; in the source an undefined second term drops the tuple.
       Replayed with clingo: `{foo(X,Y) : dom(X,Y)}. a :- 14 < #max{X, 1/Y : foo(X,Y)}.` + `dom(15,0).` has the answer
       sets {..} and {foo(15,0),..}; after the pass {..} and {a,foo(15,0),..}.  (hypothesis eo_tail fails) *)
Definition tl_e : belem := ([TVar "X"; TBin BDiv (TSym (SNum 1)) (TVar "Y")], [at2 "foo" (TVar "X") (TVar "Y")]).
Definition tl_w : term := TSym (SNum 14).
Definition tl_res : list ((string -> string) * belem) := [(ren0, tl_e)].
Definition tl_src : stmt := source_stmt 1 head_a [] NoSign CLt tl_w FMax tl_res.
Definition tl_tgts : list stmt := target_stmts 1 head_a [] NoSign CLt tl_w tl_res.
Definition tl_tgt : stmt := SRule 1 head_a [BLit (at2 "foo" (TVar "X0") (TVar "Y0")); BLit (cmp_lit NoSign CLt tl_w (TVar "X0"))].
Definition choice_foo2 : stmt :=
  SRule 1 (HAgg None [(at2 "foo" (TVar "X") (TVar "Y"), [at2 "dom" (TVar "X") (TVar "Y")])] None) [].
Definition tl_T : interp := fun at_ => at_ = ("foo", [SNum 15; SNum 0]).

Example tl_tgts_eq : tl_tgts = [tl_tgt].
Proof. reflexivity. Qed.
Example tl_model :
  MinMax.mm_execute [base_stmt; choice_foo2; tl_src] [] [base_stmt; choice_foo2; tl_src] = Ok [base_stmt; choice_foo2; tl_tgt].
Proof. vm_compute. reflexivity. Qed.

Lemma tl_src_unfold H T : stmt_sat H T tl_src <-> rule_sat [] H T head_a [BLit (agg_lit NoSign CLt tl_w FMax [tl_e])].
Proof. reflexivity. Qed.
Lemma tl_tgt_unfold H T : stmt_sat H T tl_tgt <->
  rule_sat ["X0"; "Y0"; "X0"] H T head_a [BLit (at2 "foo" (TVar "X0") (TVar "Y0")); BLit (cmp_lit NoSign CLt tl_w (TVar "X0"))].
Proof. reflexivity. Qed.

Theorem undefined_tail_refuted : stmt_sat tl_T tl_T tl_src /\ ~ (forall st, In st tl_tgts -> stmt_sat tl_T tl_T st).
Proof.
  split.
  - assert (Emp: forall s tv, ~ elems_tuples [] tl_T tl_T s [tl_e] tv).
    { intros s tv S. apply elems_tuples_iff in S. destruct S as [e [[<-|[]] [th [_ [E C]]]]].
      simpl in C. apply lits_sat_one in C. apply at2_var_sat in C. injection C as _ HY.
      simpl in E. rewrite HY in E. simpl in E. discriminate E. }
    apply tl_src_unfold. intro s.
    assert (K: ~ body_sat [] tl_T tl_T s [BLit (agg_lit NoSign CLt tl_w FMax [tl_e])]).
    { intro F. apply body_sat_one in F. simpl in F. rewrite agg_lit_sat in F. simpl in F. destruct F as [_ F].
      apply agg_holds_left in F. destruct F as [a [E [v [V C]]]]. simpl in E. injection E as <-.
      simpl in V. destruct V as [[[tv [Stv _]] _]|[_ ->]]; [exact (Emp s tv Stv)|].
      simpl in C. exact (not_lt_inf sym_lt ord _ C). }
    split; intro F; exfalso; exact (K F).
  - intro A. specialize (A tl_tgt (or_introl eq_refl)). apply tl_tgt_unfold in A.
    destruct (A (fun z => if String.eqb z "X0" then SNum 15 else SNum 0)) as [_ R].
    assert (F: body_sat ["X0"; "Y0"; "X0"] tl_T tl_T (fun z => if String.eqb z "X0" then SNum 15 else SNum 0)
                 [BLit (at2 "foo" (TVar "X0") (TVar "Y0")); BLit (cmp_lit NoSign CLt tl_w (TVar "X0"))]).
    { apply body_sat_lit_cons. split; [apply at2_var_sat; reflexivity|]. apply body_sat_one. simpl.
      apply cmp_lit_sat. exists (SNum 14), (SNum 15). split; [reflexivity|]. split; [reflexivity|]. simpl.
      apply (lt_num _ ord). lia. }
    apply R in F. apply head_a_sat in F. discriminate F.
Qed.

(* ---------------------------------------------------------------------------------------
   (d) item 4 of the task: the executable model on
         { foo(X) : dom(X) }.   a :- b, 14 < #max { X : foo(X) }.
       and the instance of the program-level theorem for its output. *)
Definition ex_w : term := TSym (SNum 14).
Definition ex_B : list bodyelem := [BLit (at0 "b")].
Definition ex_res : list ((string -> string) * belem) := [(ren0, elem_X "foo")].
Definition ex_src : stmt := source_stmt 1 head_a ex_B NoSign CLt ex_w FMax ex_res.
Definition ex_tgt : stmt :=
  SRule 1 head_a [BLit (at0 "b"); BLit (at1 "foo" (TVar "X0")); BLit (cmp_lit NoSign CLt ex_w (TVar "X0"))].
Definition ex_P : program := [base_stmt; choice_foo; ex_src].
Definition ex_Q : program := [base_stmt; choice_foo; ex_tgt].

(* the program as serialised by vlib/ser.py (after ngo.normalize.preprocess, as vlib/fam_minmax.py does) *)
Example ex_parsed : ex_P =
  [(SOther "ASTType.Program" "#program base."); (SRule 1 (HAgg None [((Lit NoSign (ASym (TFun "foo" [(TVar "X")] false))), [(Lit NoSign (ASym (TFun "dom" [(TVar "X")] false)))])] None) []); (SRule 1 (HLit (Lit NoSign (ASym (TFun "a" [] false)))) [(BLit (Lit NoSign (ASym (TFun "b" [] false)))); (BLit (Lit NoSign (ABodyAgg (Some (CLt, (TSym (SNum 14%Z)))) FMax [([(TVar "X")], [(Lit NoSign (ASym (TFun "foo" [(TVar "X")] false)))])] None)))])].
Proof. reflexivity. Qed.
Example ex_Q_parsed : ex_Q =
  [(SOther "ASTType.Program" "#program base."); (SRule 1 (HAgg None [((Lit NoSign (ASym (TFun "foo" [(TVar "X")] false))), [(Lit NoSign (ASym (TFun "dom" [(TVar "X")] false)))])] None) []); (SRule 1 (HLit (Lit NoSign (ASym (TFun "a" [] false)))) [(BLit (Lit NoSign (ASym (TFun "b" [] false)))); (BLit (Lit NoSign (ASym (TFun "foo" [(TVar "X0")] false)))); (BLit (Lit NoSign (ACmp (TSym (SNum 14%Z)) [(CLt, (TVar "X0"))])))])].
Proof. reflexivity. Qed.

(* MinMaxAggregator(prg, []).execute(prg) in the model: exactly ngo's output *)
Example ex_model : MinMax.mm_execute ex_P [] ex_P = Ok ex_Q.
Proof. vm_compute. reflexivity. Qed.
Example ex_targets : target_stmts 1 head_a ex_B NoSign CLt ex_w ex_res = [ex_tgt].
Proof. reflexivity. Qed.

Lemma body_sat_persist' G H T s b : subi H T -> body_sat G H T s b -> body_sat G T T s b.
Proof.
  intros S F. unfold Sat.body_sat in *. eapply Forall_impl; [|exact F]. intros e. destruct e as [l|l c]; simpl.
  - apply CleanupSpec.lit_sat_persist_all_proof. exact S.
  - intros X th Ag. destruct (X th Ag) as [_ B]. split; exact B.
Qed.

Definition ces : list condlit := [(at1 "foo" (TVar "X"), [at1 "dom" (TVar "X")])].
Lemma choice_foo_unfold H T : stmt_sat H T choice_foo <-> rule_sat [] H T (HAgg None ces None) [].
Proof. reflexivity. Qed.

Lemma choice_tuples_foo X T s tv :
  choice_tuples sym_lt [] X T s ces tv <-> exists v, tv = [SFun "foo" [v] true] /\ X ("dom", [v]) /\ X ("foo", [v]).
Proof.
  unfold Sat.choice_tuples. split.
  - intros (e & th & n & args & ext & vs & He & Ag & E1 & E2 & E3 & C & XA). destruct He as [<-|[]].
    simpl in E1. injection E1 as <- <- <-. simpl in E2. injection E2 as <-. simpl in C. apply lits_sat_one in C.
    apply at1_var_sat in C. exists (th "X"). auto.
  - intros [v [-> [Xd Xf]]]. exists (at1 "foo" (TVar "X"), [at1 "dom" (TVar "X")]), (fun _ => v), "foo", [TVar "X"], false, [v].
    split; [left; reflexivity|]. split; [intros x []|]. split; [reflexivity|]. split; [reflexivity|]. split; [reflexivity|].
    split; [|exact Xf]. simpl. apply lits_sat_one. apply at1_var_sat. exact Xd.
Qed.

(* In every answer set of a program that consists of the choice rule, non-rule statements and rules with head `a`,
   finitely many foo-atoms hold: foo(v) needs dom(v) (finitely many, the choice rule being satisfied) or a fact. *)
Lemma foo_finite P' I T :
  In choice_foo P' ->
  (forall st, In st P' -> st = choice_foo \/ (exists k t, st = SOther k t) \/ exists ln B, st = SRule ln head_a B) ->
  stable P' I T -> exists l, forall v, T ("foo", [v]) -> In v l.
Proof.
  intros Hin Shape [[PT FT] Min].
  set (H := fun at_ : gatom => T at_ /\ forall v, at_ = ("foo", [v]) -> T ("dom", [v]) \/ In at_ I).
  assert (S: subi H T) by (intros a [Ta _]; exact Ta).
  pose proof (PT _ Hin) as RT. apply choice_foo_unfold in RT.
  assert (HT: forall s, head_sat [] T T s (HAgg None ces None)).
  { intro s. destruct (RT s) as [_ R2]. apply R2. constructor. }
  assert (Dec: forall v, T ("dom", [v]) -> T ("foo", [v]) \/ ~ T ("foo", [v])).
  { intros v Tv. destruct (HT (fun _ => v)) as [CE _].
    specialize (CE (at1 "foo" (TVar "X"), [at1 "dom" (TVar "X")]) (fun _ => v) (or_introl eq_refl) (fun x Hx => eq_refl)).
    simpl in CE. rewrite !at1_var_sat in CE. apply CE. apply lits_sat_one. apply at1_var_sat. exact Tv. }
  assert (PS: prog_sat H T P').
  { intros st Hst. destruct (Shape st Hst) as [->|[[k [t ->]]|[ln [B ->]]]].
    - apply choice_foo_unfold. intro s. split; intros _; [|exact (HT s)].
      destruct (HT s) as [_ AT]. split; [|exact AT].
      intros e th [<-|[]] _ C. simpl in C. apply lits_sat_one in C. apply at1_var_sat in C. simpl. rewrite !at1_var_sat.
      destruct (Dec (th "X") (S _ C)) as [Y|N]; [left | right; exact N].
      split; [exact Y|]. intros v E. injection E as <-. left. apply S. exact C.
    - exact Logic.I.
    - pose proof (PT _ Hst) as R. unfold Sat.stmt_sat in *. intro s. destruct (R s) as [_ R2]. split; [|exact R2].
      intro F. apply head_a_sat. split; [|intros v E; discriminate E].
      apply (head_a_sat (gvars_rule head_a B) T T s). apply R2. exact (body_sat_persist' _ _ _ _ _ S F). }
  assert (FH: facts_sat H I).
  { intros a Ha. split; [apply FT; exact Ha | intros v E; right; exact Ha]. }
  pose proof (Min H S PS FH) as TH.
  destruct (HT (fun _ => SInf)) as [_ AT]. destruct AT as [v0 [[lT [[ND En] _]] _]].
  exists (flat_map (fun tv : list sym => match tv with [SFun _ [v] _] => [v] | _ => [] end) lT ++
          flat_map (fun at_ : gatom => match snd at_ with [v] => [v] | _ => [] end) I).
  intros v Tv. destruct (TH _ Tv) as [_ K]. apply in_app_iff. destruct (K v eq_refl) as [Td|Hi].
  - left. apply in_flat_map. exists [SFun "foo" [v] true]. split; [|left; reflexivity].
    apply En. apply choice_tuples_foo. exists v. auto.
  - right. apply in_flat_map. exists ("foo", [v]). split; [exact Hi | left; reflexivity].
Qed.

Theorem ex_stmt_sound H T : subi H T ->
  (forall X s, subi X T -> has_max sym_lt (elems_tuples [] X T s [elem_X "foo"])) ->
  (stmt_sat H T ex_src <-> stmt_sat H T ex_tgt).
Proof.
  intros S HM.
  assert (OK: elems_ok head_a ex_B NoSign CLt ex_w FMax ex_res).
  { intros re [<-|[]]. simpl fst. simpl snd. constructor.
    - reflexivity.
    - discriminate.
    - intro th. exists []. reflexivity.
    - intros x _ [].
    - intros x _ _ [].
    - intros x y [<-|[<-|[]]] [<-|[<-|[]]] _; reflexivity. }
  unfold ex_src.
  rewrite (simple_translation_stmt_sound sym_lt ord 1 head_a ex_B FMax CLt ex_w ex_res H T S); try assumption.
  - rewrite ex_targets. split; [intro A; apply A; left; reflexivity | intros A st [<-|[]]; exact A].
  - left. split; [reflexivity | left; reflexivity].
  - intro s. apply (HM H s S).
  - intro s. apply (HM T s). intros a Ha. exact Ha.
  - intros X s a _ _. discriminate.
Qed.

(* the pass on the example program: the output of the model has the same answer sets as the input, under every set
   of facts (over any predicates) *)
Theorem ex_pass_sound : exists Q, MinMax.mm_execute ex_P [] ex_P = Ok Q /\ equiv_all sym_lt ex_P Q.
Proof.
  exists ex_Q. split; [exact ex_model|].
  change ex_P with ([base_stmt; choice_foo] ++ [source_stmt 1 head_a ex_B NoSign CLt ex_w FMax ex_res] ++ []).
  change ex_Q with ([base_stmt; choice_foo] ++ target_stmts 1 head_a ex_B NoSign CLt ex_w ex_res ++ []).
  apply (simple_translation_program_sound sym_lt ord).
  - left. split; [reflexivity | left; reflexivity].
  - intros re [<-|[]]. simpl fst. simpl snd. constructor.
    + reflexivity.
    + discriminate.
    + intro th. exists []. reflexivity.
    + intros x _ [].
    + intros x _ _ [].
    + intros x y [<-|[<-|[]]] [<-|[<-|[]]] _; reflexivity.
  - intros I T St s.
    assert (Fin: exists l, forall v, T ("foo", [v]) -> In v l).
    { destruct St as [St|St]; (eapply foo_finite; [| |exact St]); try (right; left; reflexivity);
        intros st [<-|[<-|[<-|[]]]];
        first [left; reflexivity | right; left; eexists; eexists; reflexivity | right; right; eexists; eexists; reflexivity]. }
    destruct Fin as [l Hl]. exists l. intros e [tv [Stv Hd]].
    apply (tuples_unary [] T T s "foo") in Stv; [|intros []]. destruct Stv as [v [-> Tv]]. simpl in Hd. injection Hd as <-.
    apply Hl. exact Tv.
  - intros X T s a _ _. discriminate.
Qed.

End Concrete.

Print Assumptions lit_sat_gweak.
Print Assumptions head_sat_gweak.
Print Assumptions own_bound_iff.
Print Assumptions opp_bound_iff.
Print Assumptions fin_heads_has_ext.
Print Assumptions simple_component.
Print Assumptions simple_translation_rule_sound.
Print Assumptions max_lower_bound_rule_sound.
Print Assumptions min_upper_bound_rule_sound.
Print Assumptions simple_translation_rule_targets_imply_source.
Print Assumptions simple_translation_rule_source_implies_targets.
Print Assumptions negated_simple_translation_total_sound.
Print Assumptions negated_simple_translation_ht_partial.
Print Assumptions simple_translation_stmt_sound.
Print Assumptions simple_translation_stmt_sound_finite.
Print Assumptions negated_simple_translation_total_stmt_sound.
Print Assumptions simple_translation_stable_sound.
Print Assumptions simple_translation_program_sound.
Print Assumptions negated_simple_translation_stable_partial.
Print Assumptions negated_simple_translation_ht_refuted.
Print Assumptions negated_example_total_sound.
Print Assumptions negated_simple_translation_program_refuted.
Print Assumptions negated_pass_refuted.
Print Assumptions inf_bound_refuted.
Print Assumptions undefined_tail_refuted.
Print Assumptions ex_model.
Print Assumptions ex_stmt_sound.
Print Assumptions ex_pass_sound.
