(* Proofs about Model/Cleanup.v (the executable model of ngo/cleanup.py) w.r.t. the HT semantics of Sem/Sat.v.

   1. Boolean equality is Leibniz equality            sym_eqb_eq, term_eqb_eq, list_eqb_term_eq
   2. Persistence of literal satisfaction               lit_sat_persist_proof (+ lit_sat_persist_all_proof: every literal)
   3. The same-predicate branch of _superseeded         superseeded_same_pred_eq (characterisation),
                                                        same_pred_implied_proof (+ _weak_: weaker side condition),
                                                        superseeded_lhs_positive_proof,
                                                        superseeded_same_pred_never_negative_proof,
                                                        remove_implied_body_proof
   4. _remove_superseed_from_list only removes          remove_superseed_only_removes_proof, remove_superseed_fixpoint_proof,
      and never runs out of fuel                        remove_superseed_shrinks_proof, remove_superseed_no_outoffuel_proof,
                                                        remove_superseed_body_no_outoffuel_proof, ..._cond_...
   5. Pass-through of non-rule statements               passthrough_cleanup_proof

   Induction principles (sym_ind', term_ind', atom_ind') are copied from Link/UnifySpec.v and Link/OrderSpec.v;
   nothing is imported from other Link files. *)
From Coq Require Import List String ZArith Bool Arith Lia.
From NGO Require Import Syntax.Ast Sem.Sym Sem.Sat Model.Cleanup.
Import ListNotations.
Open Scope string_scope. Open Scope list_scope.

(* ====================================================================================== *)
(** * 0. Small generic facts *)

Lemma rbind_ok {A B} (r: result A) (f: A -> result B) b :
  rbind r f = Ok b -> exists a, r = Ok a /\ f a = Ok b.
Proof. destruct r as [a|k| |]; simpl; try discriminate. intros E. exists a. split; [reflexivity | exact E]. Qed.

Lemma rbind_not_oof {A B} (r: result A) (f: A -> result B) :
  r <> OutOfFuel -> (forall a, r = Ok a -> f a <> OutOfFuel) -> rbind r f <> OutOfFuel.
Proof.
  destruct r as [a|k| |]; simpl; intros N F.
  - apply F. reflexivity.
  - discriminate.
  - discriminate.
  - exfalso. apply N. reflexivity.
Qed.

(* ====================================================================================== *)
(** * 1. Boolean equality is Leibniz equality *)

Lemma sym_ind' (P: sym -> Prop) :
  P SInf -> (forall z, P (SNum z)) -> (forall s, P (SStr s)) ->
  (forall n a p, Forall P a -> P (SFun n a p)) -> P SSup -> forall s, P s.
Proof.
  intros HI HN HS HF HU. fix IH 1. intros [ |z|s|n a p| ].
  - exact HI.
  - apply HN.
  - apply HS.
  - apply HF. induction a as [|x a IHa]; constructor; [apply IH | apply IHa].
  - exact HU.
Qed.

Lemma term_ind' (P: term -> Prop) :
  (forall x, P (TVar x)) -> (forall s, P (TSym s)) -> (forall o t, P t -> P (TUn o t)) ->
  (forall o l r, P l -> P r -> P (TBin o l r)) -> (forall l r, P l -> P r -> P (TInterval l r)) ->
  (forall n xs e, Forall P xs -> P (TFun n xs e)) -> (forall xs, Forall P xs -> P (TPool xs)) ->
  forall t, P t.
Proof.
  intros HV HS HU HB HI HF HP. fix IH 1. intros t.
  destruct t as [x|s|o t|o l r|l r|n xs e|xs].
  - apply HV.
  - apply HS.
  - apply HU, IH.
  - apply HB; apply IH.
  - apply HI; apply IH.
  - apply HF. induction xs as [|x xs IHxs]; constructor; [apply IH | apply IHxs].
  - apply HP. induction xs as [|x xs IHxs]; constructor; [apply IH | apply IHxs].
Qed.

(* list_eqb reflects equality as soon as the element test does so on the members of the left list *)
Lemma list_eqb_eq_local {A} (e: A -> A -> bool) (xs: list A) :
  Forall (fun x => forall y, e x y = true <-> x = y) xs ->
  forall ys, list_eqb e xs ys = true <-> xs = ys.
Proof.
  induction 1 as [|x xs Hx _ IH]; intros [|y ys]; simpl.
  - split; reflexivity.
  - split; discriminate.
  - split; discriminate.
  - rewrite andb_true_iff, Hx, IH. split.
    + intros [-> ->]. reflexivity.
    + intros E. inversion E. split; reflexivity.
Qed.

Lemma list_eqb_eq {A} (e: A -> A -> bool) :
  (forall x y, e x y = true <-> x = y) -> forall xs ys, list_eqb e xs ys = true <-> xs = ys.
Proof.
  intros He xs. apply list_eqb_eq_local. apply Forall_forall. intros x _. apply He.
Qed.

Lemma list_eqb_refl {A} (e: A -> A -> bool) (xs: list A) :
  Forall (fun x => e x x = true) xs -> list_eqb e xs xs = true.
Proof. induction 1 as [|x xs Hx _ IH]; simpl; [reflexivity|]. rewrite Hx, IH. reflexivity. Qed.

(* the anonymous inner loops of sym_eqb / term_eqb are list_eqb *)
Lemma sym_eqb_fun n xs p m ys q :
  sym_eqb (SFun n xs p) (SFun m ys q) = String.eqb n m && (Bool.eqb p q && list_eqb sym_eqb xs ys).
Proof. reflexivity. Qed.
Lemma term_eqb_fun n xs e m ys e' :
  term_eqb (TFun n xs e) (TFun m ys e') = String.eqb n m && (Bool.eqb e e' && list_eqb term_eqb xs ys).
Proof. reflexivity. Qed.
Lemma term_eqb_pool xs ys : term_eqb (TPool xs) (TPool ys) = list_eqb term_eqb xs ys.
Proof. reflexivity. Qed.

Theorem sym_eqb_eq : forall a b, sym_eqb a b = true <-> a = b.
Proof.
  induction a as [ |z|s|n xs p IH| ] using sym_ind'; intros b;
    destruct b as [ |z'|s'|m ys q| ]; try (simpl; split; discriminate); try (simpl; split; reflexivity).
  - simpl. rewrite Z.eqb_eq. split; [intros ->; reflexivity | intros E; inversion E; reflexivity].
  - simpl. rewrite String.eqb_eq. split; [intros ->; reflexivity | intros E; inversion E; reflexivity].
  - rewrite sym_eqb_fun, !andb_true_iff, String.eqb_eq, Bool.eqb_true_iff, (list_eqb_eq_local sym_eqb xs IH).
    split.
    + intros [-> [-> ->]]. reflexivity.
    + intros E. inversion E. repeat split; reflexivity.
Qed.

Lemma unop_eqb_eq a b : unop_eqb a b = true <-> a = b.
Proof. destruct a, b; simpl; split; try discriminate; reflexivity. Qed.
Lemma binop_eqb_eq a b : binop_eqb a b = true <-> a = b.
Proof. destruct a, b; simpl; split; try discriminate; reflexivity. Qed.
Lemma sign_eqb_eq a b : sign_eqb a b = true <-> a = b.
Proof. destruct a, b; simpl; split; try discriminate; reflexivity. Qed.

Theorem term_eqb_eq : forall a b, term_eqb a b = true <-> a = b.
Proof.
  induction a as [x|c|o u IH|o l r IHl IHr|l r IHl IHr|n xs e IH|xs IH] using term_ind'; intros b;
    destruct b as [x'|c'|o' u'|o' l' r'|l' r'|n' xs' e'|xs']; try (simpl; split; discriminate).
  - simpl. rewrite String.eqb_eq. split; [intros ->; reflexivity | intros E; inversion E; reflexivity].
  - simpl. rewrite sym_eqb_eq. split; [intros ->; reflexivity | intros E; inversion E; reflexivity].
  - simpl. rewrite andb_true_iff, unop_eqb_eq, IH.
    split; [intros [-> ->]; reflexivity | intros E; inversion E; split; reflexivity].
  - simpl. rewrite !andb_true_iff, binop_eqb_eq, IHl, IHr.
    split; [intros [-> [-> ->]]; reflexivity | intros E; inversion E; repeat split; reflexivity].
  - simpl. rewrite andb_true_iff, IHl, IHr.
    split; [intros [-> ->]; reflexivity | intros E; inversion E; split; reflexivity].
  - rewrite term_eqb_fun, !andb_true_iff, String.eqb_eq, Bool.eqb_true_iff, (list_eqb_eq_local term_eqb xs IH).
    split; [intros [-> [-> ->]]; reflexivity | intros E; inversion E; repeat split; reflexivity].
  - rewrite term_eqb_pool, (list_eqb_eq_local term_eqb xs IH).
    split; [intros ->; reflexivity | intros E; inversion E; reflexivity].
Qed.

Theorem list_eqb_term_eq : forall l l', list_eqb term_eqb l l' = true <-> l = l'.
Proof. apply list_eqb_eq. apply term_eqb_eq. Qed.

Lemma term_eqb_refl t : term_eqb t t = true.
Proof. apply term_eqb_eq. reflexivity. Qed.

Lemma pred_eqb_eq (a b: pred) : pred_eqb a b = true <-> a = b.
Proof.
  destruct a as [n k], b as [m j]. unfold pred_eqb. simpl.
  rewrite andb_true_iff, String.eqb_eq, Nat.eqb_eq.
  split; [intros [-> ->]; reflexivity | intros E; inversion E; split; reflexivity].
Qed.

(* ---- reflexivity of the boolean equality of literals / body elements (needed for list.remove) ---- *)
Definition lit_atom (l: lit) : atom := match l with Lit _ a => a end.

Lemma atom_ind' (P: atom -> Prop) :
  (forall t, P (ASym t)) -> (forall t gs, P (ACmp t gs)) -> (forall b, P (ABool b)) ->
  (forall lg f es rg,
      Forall (fun e : list term * list lit => Forall (fun l => P (lit_atom l)) (snd e)) es ->
      P (ABodyAgg lg f es rg)) ->
  (forall lg es rg,
      Forall (fun e : lit * list lit => P (lit_atom (fst e)) /\ Forall (fun l => P (lit_atom l)) (snd e)) es ->
      P (AAgg lg es rg)) ->
  (forall s, P (ATheory s)) ->
  forall a, P a.
Proof.
  intros HS HC HB HBA HA HT. fix IH 1. intros a.
  destruct a as [t|t gs|b|lg f es rg|lg es rg|s].
  - apply HS.
  - apply HC.
  - apply HB.
  - apply HBA. induction es as [|[ts cs] r IHr]; constructor; [|apply IHr]. simpl.
    induction cs as [|[s a'] q IHq]; constructor; [apply IH | apply IHq].
  - apply HA. induction es as [|[[s0 a0] cs] r IHr]; constructor; [|apply IHr]. simpl. split; [apply IH|].
    induction cs as [|[s a'] q IHq]; constructor; [apply IH | apply IHq].
  - apply HT.
Qed.

Lemma guard_eqb_refl (g: guard) : guard_eqb g g = true.
Proof. destruct g as [o t]. unfold guard_eqb. simpl. rewrite term_eqb_refl. destruct o; reflexivity. Qed.
Lemma oguard_eqb_refl (g: option guard) : option_eqb guard_eqb g g = true.
Proof. destruct g; simpl; [apply guard_eqb_refl | reflexivity]. Qed.
Lemma list_eqb_refl_all {A} (e: A -> A -> bool) : (forall x, e x x = true) -> forall xs, list_eqb e xs xs = true.
Proof. intros He xs. apply list_eqb_refl. apply Forall_forall. intros x _. apply He. Qed.

Lemma lit_eqb_unfold s a s' a' : lit_eqb (Lit s a) (Lit s' a') = sign_eqb s s' && atom_eqb a a'.
Proof. reflexivity. Qed.

Lemma atom_eqb_refl : forall a, atom_eqb a a = true.
Proof.
  apply (atom_ind' (fun a => atom_eqb a a = true)).
  - intros t. simpl. apply term_eqb_refl.
  - intros t gs. simpl. rewrite term_eqb_refl. simpl. apply list_eqb_refl_all. apply guard_eqb_refl.
  - intros b. destruct b; reflexivity.
  - intros lg f es rg IH. simpl. rewrite !oguard_eqb_refl.
    replace (aggfun_eqb f f) with true by (destruct f; reflexivity). simpl.
    induction IH as [|[ts cs] r Hcs _ IHr]; [reflexivity|].
    apply andb_true_intro. split; [apply list_eqb_refl_all; apply term_eqb_refl|].
    apply andb_true_intro. split; [|exact IHr].
    simpl in Hcs. clear IHr.
    induction Hcs as [|[sg a] q Ha _ IHq]; [reflexivity|].
    apply andb_true_intro. split; [|exact IHq].
    rewrite lit_eqb_unfold. apply andb_true_intro. split; [destruct sg; reflexivity | exact Ha].
  - intros lg es rg IH. simpl. rewrite !oguard_eqb_refl. simpl.
    induction IH as [|[[s0 a0] cs] r [Hl Hcs] _ IHr]; [reflexivity|].
    apply andb_true_intro. split.
    { rewrite lit_eqb_unfold. apply andb_true_intro. split; [destruct s0; reflexivity | exact Hl]. }
    apply andb_true_intro. split; [|exact IHr].
    simpl in Hcs. clear IHr Hl.
    induction Hcs as [|[sg a] q Ha _ IHq]; [reflexivity|].
    apply andb_true_intro. split; [|exact IHq].
    rewrite lit_eqb_unfold. apply andb_true_intro. split; [destruct sg; reflexivity | exact Ha].
  - intros s. simpl. apply String.eqb_refl.
Qed.

Lemma lit_eqb_refl l : lit_eqb l l = true.
Proof. destruct l as [s a]. rewrite lit_eqb_unfold, atom_eqb_refl. destruct s; reflexivity. Qed.

Lemma bodyelem_eqb_refl b : bodyelem_eqb b b = true.
Proof.
  destruct b as [l|l c]; simpl; [apply lit_eqb_refl|].
  rewrite lit_eqb_refl. simpl. apply list_eqb_refl_all. apply lit_eqb_refl.
Qed.

(* ====================================================================================== *)
(** * 2. Persistence:  (H,T) |= l  implies  (T,T) |= l  for H <= T *)

(* every atom kind but the body aggregate.  ASym, ACmp, ABool carry meaning; AAgg and ATheory are never
   satisfied in Sem/Sat.v, so the statement is vacuous for them *)
Definition simple_lit (l: lit) : bool :=
  match l with Lit _ (ABodyAgg _ _ _ _) => false | _ => true end.

Section Semantics.
Variable sym_lt : sym -> sym -> Prop.
Notation lit_sat := (lit_sat sym_lt).
Notation atom_sat := (atom_sat sym_lt).
Notation lits_sat := (lits_sat sym_lt).
Notation agg_holds := (agg_holds sym_lt).

Lemma lit_sat_sym G H T s sg t : lit_sat G H T s (Lit sg (ASym t)) = sym_atom_sat H T s sg t.
Proof. reflexivity. Qed.

(* the tuple set of a body aggregate's elements, as used inside atom_sat (copied from Link/AggSem.v) *)
Definition elems_tuples (G: list string) (X T: interp) (s: subst) (es: list belem) : tupset := fun tv =>
  (fix ex_elem (es: list (list term * list lit)) : Prop :=
     match es with
     | [] => False
     | e :: es' =>
         (exists th, agree_on G s th /\ eval_list th (fst e) = Some tv /\
            (fix all (cs: list lit) : Prop :=
               match cs with [] => True | c :: cs' => lit_sat G X T th c /\ all cs' end) (snd e))
         \/ ex_elem es'
     end) es.

Lemma lit_sat_bodyagg G H T s sg lg f es rg :
  lit_sat G H T s (Lit sg (ABodyAgg lg f es rg)) =
  apply_sign sg (agg_holds s lg f rg (elems_tuples G H T s es) /\ agg_holds s lg f rg (elems_tuples G T T s es))
                (agg_holds s lg f rg (elems_tuples G T T s es)).
Proof. reflexivity. Qed.

Lemma sym_atom_sat_persist H T s sg t : subi H T -> sym_atom_sat H T s sg t -> sym_atom_sat T T s sg t.
Proof.
  intros HT. unfold sym_atom_sat. destruct (eval s t) as [[ |z|x|n vs [|]| ]|]; try exact (fun F => F).
  destruct sg; simpl; [apply HT | exact (fun F => F) | exact (fun F => F)].
Qed.

(* Body aggregates included: the T-component of an aggregate literal is a conjunct of its (H,T) meaning. *)
Theorem lit_sat_persist_all_proof : forall G H T s l,
  subi H T -> lit_sat G H T s l -> lit_sat G T T s l.
Proof.
  intros G H T s [sg a] HT. destruct a as [t|t gs|b|lg f es rg|lg es rg|x].
  - rewrite !lit_sat_sym. apply sym_atom_sat_persist. exact HT.
  - simpl. destruct sg; exact (fun F => F).
  - simpl. destruct sg; exact (fun F => F).
  - rewrite !lit_sat_bodyagg. destruct sg; simpl.
    + intros [_ X]. split; exact X.
    + exact (fun F => F).
    + exact (fun F => F).
  - simpl. exact (fun F => F).
  - simpl. exact (fun F => F).
Qed.

Theorem lit_sat_persist_proof : forall G H T s l,
  simple_lit l = true -> subi H T -> lit_sat G H T s l -> lit_sat G T T s l.
Proof. intros G H T s l _. apply lit_sat_persist_all_proof. Qed.

Corollary lits_sat_persist_proof : forall G H T s ls,
  subi H T -> lits_sat G H T s ls -> lits_sat G T T s ls.
Proof.
  intros G H T s ls HT F. unfold Sat.lits_sat in *. eapply Forall_impl; [|exact F].
  intros l. apply lit_sat_persist_all_proof. exact HT.
Qed.

End Semantics.

(* ====================================================================================== *)
(** * 3. The same-predicate branch of _superseeded *)

(* arguments of the symbolic atom of a literal ([] when the literal is no predicate) *)
Definition lit_args (l: lit) : list term :=
  match pred_symbol l with Some sy => snd sy | None => [] end.

(* both literals are predicates and (name, arity) coincide: exactly the condition under which
   _superseeded takes its same-predicate branch (once lhs is known to be positive) *)
Definition same_pred (lhs rhs: lit) : bool :=
  match pred_symbol lhs, pred_symbol rhs with
  | Some l, Some r => pred_eqb (symbol_pred l) (symbol_pred r)
  | _, _ => false
  end.

(* no argument of the literal is the variable "_" *)
Definition no_anon (l: lit) : bool := forallb (fun t => negb (is_anon t)) (lit_args l).

(* weaker, two-sided condition: wherever rhs has "_", lhs has "_" as well *)
Fixpoint anon_guarded_args (largs rargs: list term) : bool :=
  match largs, rargs with
  | l :: largs', r :: rargs' => (negb (is_anon r) || is_anon l) && anon_guarded_args largs' rargs'
  | _, _ => true
  end.
Definition anon_guarded (lhs rhs: lit) : bool := anon_guarded_args (lit_args lhs) (lit_args rhs).

Lemma is_anon_eq t : is_anon t = true -> t = TVar "_".
Proof. destruct t; simpl; try discriminate. rewrite String.eqb_eq. intros ->. reflexivity. Qed.

Lemma no_anon_guarded lhs rhs : no_anon rhs = true -> anon_guarded lhs rhs = true.
Proof.
  unfold no_anon, anon_guarded. generalize (lit_args lhs) as la. generalize (lit_args rhs) as ra.
  induction ra as [|r ra IH]; intros [|l la]; simpl; try reflexivity.
  rewrite andb_true_iff. intros [Hr Hra]. rewrite Hr. simpl. apply IH. exact Hra.
Qed.

(* same_pred_args demands syntactic equality at every position whose rhs argument is not "_" *)
Lemma same_pred_args_eq : forall largs rargs,
  List.length largs = List.length rargs -> anon_guarded_args largs rargs = true ->
  same_pred_args largs rargs = true -> largs = rargs.
Proof.
  induction largs as [|l la IH]; intros [|r ra]; simpl; try discriminate; [reflexivity|].
  intros Hlen. rewrite andb_true_iff. intros [Hg Hga].
  destruct (is_anon r) eqn:Ar.
  - simpl in Hg. intros Hs. rewrite (is_anon_eq _ Ar), (is_anon_eq _ Hg). f_equal. apply IH; auto.
  - destruct (term_eqb l r) eqn:E; simpl; [|discriminate].
    intros Hs. apply term_eqb_eq in E. subst r. f_equal. apply IH; auto.
Qed.

Lemma pred_symbol_some l sy :
  pred_symbol l = Some sy -> exists sg e, l = Lit sg (ASym (TFun (fst sy) (snd sy) e)).
Proof.
  destruct l as [sg [t|t gs|b|lg f es rg|lg es rg|x]]; simpl; try discriminate.
  destruct t as [x|c|o u|o l r|l r|n xs e|xs]; try discriminate.
  intros E. inversion E. simpl. exists sg, e. reflexivity.
Qed.

(* Characterisation of the same-predicate branch *)
Theorem superseeded_same_pred_eq : forall ss lhs rhs,
  same_pred lhs rhs = true ->
  _superseeded ss lhs rhs =
    if negb (sign_eqb (lit_sign lhs) NoSign) then Ok false
    else if sign_eqb (lit_sign rhs) Neg then Ok false
    else Ok (same_pred_args (lit_args lhs) (lit_args rhs)).
Proof.
  intros ss lhs rhs. unfold same_pred, _superseeded, lit_args.
  destruct (pred_symbol lhs) as [lsy|]; [|discriminate].
  destruct (pred_symbol rhs) as [rsy|]; [|discriminate].
  intros SP. cbv zeta. rewrite SP. reflexivity.
Qed.

(* guard 1 of the fix: only a positive literal implies anything (every branch) *)
Theorem superseeded_lhs_positive_proof : forall ss lhs rhs,
  _superseeded ss lhs rhs = Ok true -> lit_sign lhs = NoSign.
Proof.
  intros ss lhs rhs. unfold _superseeded.
  destruct (pred_symbol lhs) as [lsy|]; [|discriminate].
  destruct (pred_symbol rhs) as [rsy|]; [|discriminate].
  destruct (lit_sign lhs); [intros _; reflexivity | simpl; discriminate | simpl; discriminate].
Qed.

(* guard 2 of the fix: in the same-predicate branch a negated literal is never implied *)
Theorem superseeded_same_pred_never_negative_proof : forall ss lhs rhs,
  same_pred lhs rhs = true -> lit_sign rhs = Neg -> _superseeded ss lhs rhs = Ok false.
Proof.
  intros ss lhs rhs SP SN. rewrite (superseeded_same_pred_eq ss lhs rhs SP), SN. simpl.
  destruct (negb (sign_eqb (lit_sign lhs) NoSign)); reflexivity.
Qed.

(* what a `true` answer of the same-predicate branch means syntactically *)
Lemma superseeded_same_pred_inv ss lhs rhs :
  same_pred lhs rhs = true -> anon_guarded lhs rhs = true -> _superseeded ss lhs rhs = Ok true ->
  exists n args e e' sg,
    lhs = Lit NoSign (ASym (TFun n args e)) /\ rhs = Lit sg (ASym (TFun n args e')) /\ sg <> Neg.
Proof.
  intros SP AG E. rewrite (superseeded_same_pred_eq ss lhs rhs SP) in E.
  unfold same_pred in SP. unfold anon_guarded, lit_args in AG. unfold lit_args in E.
  destruct (pred_symbol lhs) as [[n la]|] eqn:EL; [|discriminate].
  destruct (pred_symbol rhs) as [[m ra]|] eqn:ER; [|discriminate].
  apply pred_symbol_some in EL. destruct EL as [sgl [e ->]].
  apply pred_symbol_some in ER. destruct ER as [sg [e' ->]].
  simpl in *. apply pred_eqb_eq in SP. unfold symbol_pred in SP. simpl in SP. inversion SP as [[Hn Hlen]]. subst m.
  destruct sgl; simpl in E; try discriminate.
  destruct sg; simpl in E; try discriminate.
  - inversion E as [Hs]. rewrite (same_pred_args_eq la ra Hlen AG Hs).
    exists n, ra, e, e', NoSign. repeat split; discriminate.
  - inversion E as [Hs]. rewrite (same_pred_args_eq la ra Hlen AG Hs).
    exists n, ra, e, e', NegNeg. repeat split; discriminate.
Qed.

Section SemanticsSuperseed.
Variable sym_lt : sym -> sym -> Prop.
Notation lit_sat := (lit_sat sym_lt).
Notation lits_sat := (lits_sat sym_lt).

(* p(t) implies p(t) and not not p(t) at (H,T) with H <= T; the `external` flag plays no role *)
Lemma same_atom_implied G H T s n args e e' sg :
  subi H T -> sg <> Neg ->
  lit_sat G H T s (Lit NoSign (ASym (TFun n args e))) -> lit_sat G H T s (Lit sg (ASym (TFun n args e'))).
Proof.
  intros HT NN. rewrite !lit_sat_sym. unfold sym_atom_sat. rewrite !eval_fun.
  destruct (eval_list s args) as [vs|]; [|exact (fun F => F)].
  destruct sg; simpl; [exact (fun F => F) | contradiction NN; reflexivity | apply HT].
Qed.

(* with the weakest side condition on "_" *)
Theorem same_pred_implied_weak_proof : forall ss lhs rhs G H T s,
  subi H T -> pred_symbol lhs <> None -> same_pred lhs rhs = true -> anon_guarded lhs rhs = true ->
  _superseeded ss lhs rhs = Ok true ->
  lit_sat G H T s lhs -> lit_sat G H T s rhs.
Proof.
  intros ss lhs rhs G H T s HT _ SP AG E.
  destruct (superseeded_same_pred_inv ss lhs rhs SP AG E) as [n [args [e [e' [sg [-> [-> NN]]]]]]].
  apply same_atom_implied; assumption.
Qed.

Theorem same_pred_implied_proof : forall ss lhs rhs G H T s,
  subi H T -> pred_symbol lhs <> None -> same_pred lhs rhs = true -> no_anon rhs = true ->
  _superseeded ss lhs rhs = Ok true ->
  lit_sat G H T s lhs -> lit_sat G H T s rhs.
Proof.
  intros ss lhs rhs G H T s HT NP SP NA. apply same_pred_implied_weak_proof; try assumption.
  apply no_anon_guarded. exact NA.
Qed.

Theorem remove_implied_body_proof : forall ss lhs rhs G H T s rest,
  subi H T -> pred_symbol lhs <> None -> same_pred lhs rhs = true -> no_anon rhs = true ->
  _superseeded ss lhs rhs = Ok true ->
  (lits_sat G H T s (lhs :: rhs :: rest) <-> lits_sat G H T s (lhs :: rest)).
Proof.
  intros ss lhs rhs G H T s rest HT NP SP NA E. unfold Sat.lits_sat. split; intros F.
  - inversion F as [|x l Hl F']. subst. inversion F' as [|x l Hr Hrest]. subst.
    constructor; assumption.
  - inversion F as [|x l Hl Hrest]. subst.
    constructor; [exact Hl|]. constructor; [|exact Hrest].
    apply (same_pred_implied_proof ss lhs rhs G H T s HT NP SP NA E Hl).
Qed.

(* the same for bodies *)
Corollary remove_implied_body_elems_proof : forall ss lhs rhs G H T s rest,
  subi H T -> pred_symbol lhs <> None -> same_pred lhs rhs = true -> no_anon rhs = true ->
  _superseeded ss lhs rhs = Ok true ->
  (body_sat sym_lt G H T s (BLit lhs :: BLit rhs :: rest) <-> body_sat sym_lt G H T s (BLit lhs :: rest)).
Proof.
  intros ss lhs rhs G H T s rest HT NP SP NA E. unfold body_sat. split; intros F.
  - inversion F as [|x l Hl F']. subst. inversion F' as [|x l Hr Hrest]. subst.
    constructor; assumption.
  - inversion F as [|x l Hl Hrest]. subst.
    constructor; [exact Hl|]. constructor; [|exact Hrest].
    simpl. simpl in Hl. apply (same_pred_implied_proof ss lhs rhs G H T s HT NP SP NA E Hl).
Qed.

(* The side condition on "_" cannot be dropped in Sem/Sat.v, where "_" is an ordinary variable name:
   p(X) does not entail p(_) under a substitution with s("X") <> s("_").  (In gringo every "_" is a fresh
   variable, existential in a positive body literal, so the removal of p(_) next to p(X) is sound there;
   that reading is outside this semantics.) *)
Example same_pred_anon_needed :
  let lhs := Lit NoSign (ASym (TFun "p" [TVar "X"] false)) in
  let rhs := Lit NoSign (ASym (TFun "p" [TVar "_"] false)) in
  let T0 : interp := fun a => a = ("p", [SNum 1]) in
  let s0 : subst := fun x => if String.eqb x "_" then SNum 2 else SNum 1 in
  same_pred lhs rhs = true /\ _superseeded [] lhs rhs = Ok true /\ no_anon rhs = false /\
  lit_sat [] T0 T0 s0 lhs /\ ~ lit_sat [] T0 T0 s0 rhs.
Proof.
  cbv zeta. split; [reflexivity|]. split; [reflexivity|]. split; [reflexivity|].
  rewrite !lit_sat_sym. unfold sym_atom_sat. rewrite !eval_fun. simpl. split; [reflexivity | discriminate].
Qed.

End SemanticsSuperseed.

(* ====================================================================================== *)
(** * 4. _remove_superseed_from_list only removes, and the fuel suffices *)

(* order preserving sub-list *)
Inductive subseq {A: Type} : list A -> list A -> Prop :=
| subseq_nil : subseq [] []
| subseq_skip x l' l : subseq l' l -> subseq l' (x :: l)
| subseq_keep x l' l : subseq l' l -> subseq (x :: l') (x :: l).

Lemma subseq_refl {A} (l: list A) : subseq l l.
Proof. induction l; [apply subseq_nil | apply subseq_keep; assumption]. Qed.

Lemma subseq_trans {A} (l1 l2 l3: list A) : subseq l1 l2 -> subseq l2 l3 -> subseq l1 l3.
Proof.
  intros H12 H23. revert l1 H12. induction H23 as [|x l2 l3 H23 IH|x l2 l3 H23 IH]; intros l1 H12.
  - exact H12.
  - apply subseq_skip. apply IH. exact H12.
  - inversion H12; subst.
    + apply subseq_skip. apply IH. assumption.
    + apply subseq_keep. apply IH. assumption.
Qed.

Lemma subseq_In {A} (l' l: list A) : subseq l' l -> forall x, In x l' -> In x l.
Proof.
  induction 1 as [|y l' l _ IH|y l' l _ IH]; intros x Hx.
  - exact Hx.
  - right. apply IH. exact Hx.
  - destruct Hx as [->|Hx]; [left; reflexivity | right; apply IH; exact Hx].
Qed.

Lemma subseq_length {A} (l' l: list A) : subseq l' l -> List.length l' <= List.length l.
Proof. induction 1; simpl; lia. Qed.

Lemma subseq_length_eq {A} (l' l: list A) : subseq l' l -> List.length l' = List.length l -> l' = l.
Proof.
  induction 1 as [|y l' l S IH|y l' l S IH]; simpl; intros E.
  - reflexivity.
  - apply subseq_length in S. lia.
  - f_equal. apply IH. lia.
Qed.

Lemma fits_loop_not_oof : forall vm rargs largs i fits, fits_loop rargs largs i vm fits <> OutOfFuel.
Proof.
  induction vm as [|k vm IH]; intros rargs largs i fits; simpl; [discriminate|].
  destruct (nth_error rargs i); [|discriminate]. destruct (nth_error largs k); [|discriminate]. apply IH.
Qed.

Lemma superseeded_not_oof ss lhs rhs : _superseeded ss lhs rhs <> OutOfFuel.
Proof.
  unfold _superseeded.
  destruct (pred_symbol lhs) as [lsy|]; [|discriminate].
  destruct (pred_symbol rhs) as [rsy|]; [|discriminate].
  destruct (negb (sign_eqb (lit_sign lhs) NoSign)); [discriminate|]. cbv zeta.
  destruct (pred_eqb (symbol_pred lsy) (symbol_pred rsy)).
  { destruct (sign_eqb (lit_sign rhs) Neg); discriminate. }
  induction ss as [|m ms IH]; [discriminate|].
  try (progress simpl). (* the loop applied to m :: ms is shown one step unfolded *)
  match goal with |- (if ?c then _ else _) <> _ => destruct c end; [|exact IH].
  apply rbind_not_oof; [apply fits_loop_not_oof|].
  intros [|] _; [discriminate | exact IH].
Qed.

Section RemoveSpec.
  Context {A: Type} (as_lit: A -> option lit) (eqb: A -> A -> bool) (ss: list Mapping).
  Notation find_rhs := (find_rhs as_lit ss).
  Notation find_pair := (find_pair as_lit ss).
  Notation remove_first := (remove_first eqb).
  Notation remove_loop := (remove_loop as_lit eqb ss).

  Lemma superseeded_elem_not_oof x y : superseeded_elem as_lit ss x y <> OutOfFuel.
  Proof.
    unfold superseeded_elem. destruct (as_lit x); [|discriminate]. destruct (as_lit y); [|discriminate].
    apply superseeded_not_oof.
  Qed.

  Lemma find_rhs_In lhs i : forall l j r, find_rhs lhs i j l = Ok (Some r) -> In r l.
  Proof.
    induction l as [|y l IH]; intros j r; simpl; [discriminate|].
    destruct (Nat.eqb i j); [intros E; right; apply (IH _ _ E)|].
    intros E. apply rbind_ok in E. destruct E as [b [_ E]].
    destruct b; [inversion E; left; reflexivity | right; apply (IH _ _ E)].
  Qed.

  Lemma find_rhs_not_oof lhs i : forall l j, find_rhs lhs i j l <> OutOfFuel.
  Proof.
    induction l as [|y l IH]; intros j; simpl; [discriminate|].
    destruct (Nat.eqb i j); [apply IH|].
    apply rbind_not_oof; [apply superseeded_elem_not_oof|]. intros [|] _; [discriminate | apply IH].
  Qed.

  Lemma find_pair_In whole : forall rest i r, find_pair whole i rest = Ok (Some r) -> In r whole.
  Proof.
    induction rest as [|lhs rest IH]; intros i r; simpl; [discriminate|].
    intros E. apply rbind_ok in E. destruct E as [o [E1 E]].
    destruct o as [r'|]; [inversion E; subst; apply (find_rhs_In _ _ _ _ _ E1) | apply (IH _ _ E)].
  Qed.

  Lemma find_pair_not_oof whole : forall rest i, find_pair whole i rest <> OutOfFuel.
  Proof.
    induction rest as [|lhs rest IH]; intros i; simpl; [discriminate|].
    apply rbind_not_oof; [apply find_rhs_not_oof|]. intros [r|] _; [discriminate | apply IH].
  Qed.

  Lemma remove_first_subseq x : forall l, subseq (remove_first x l) l.
  Proof.
    induction l as [|y l IH]; simpl; [apply subseq_nil|].
    destruct (eqb y x); [apply subseq_skip; apply subseq_refl | apply subseq_keep; exact IH].
  Qed.

  (* list.remove really removes one member when == is reflexive on the members *)
  Lemma remove_first_length x : forall l,
    In x l -> eqb x x = true -> S (List.length (remove_first x l)) = List.length l.
  Proof.
    induction l as [|y l IH]; simpl; intros Hin Hr; [contradiction|].
    destruct (eqb y x) eqn:E; [reflexivity|]. simpl. f_equal.
    destruct Hin as [->|Hin]; [rewrite Hr in E; discriminate | apply IH; assumption].
  Qed.

  (* one invariant for the loop: the result is a sub-list without superseeded pair, and either nothing
     happened or at least one member was taken out *)
  Lemma remove_loop_spec : forall fuel body upd l' u,
    remove_loop fuel body upd = Ok (l', u) ->
    subseq l' body /\ find_pair l' 0 l' = Ok None /\
    ((l' = body /\ u = upd) \/ (u = true /\ exists rhs, In rhs body /\ subseq l' (remove_first rhs body))).
  Proof.
    induction fuel as [|f IH]; intros body upd l' u; simpl; [discriminate|].
    intros E. apply rbind_ok in E. destruct E as [o [E1 E]]. destruct o as [rhs|].
    - destruct (IH _ _ _ _ E) as [S1 [FP D]]. split; [|split].
      + eapply subseq_trans; [exact S1 | apply remove_first_subseq].
      + exact FP.
      + right. assert (u = true) as ->.
        { destruct D as [[_ ->]|[-> _]]; reflexivity. }
        split; [reflexivity|]. exists rhs. split; [apply (find_pair_In _ _ _ _ E1) | exact S1].
    - inversion E; subst. split; [apply subseq_refl|]. split; [exact E1|]. left. split; reflexivity.
  Qed.

  Lemma remove_loop_not_oof : forall fuel body upd,
    (forall x, In x body -> eqb x x = true) -> List.length body < fuel -> remove_loop fuel body upd <> OutOfFuel.
  Proof.
    induction fuel as [|f IH]; intros body upd Hr Hlen; [lia|]. simpl.
    apply rbind_not_oof; [apply find_pair_not_oof|].
    intros [rhs|] E; [|discriminate].
    pose proof (find_pair_In _ _ _ _ E) as Hin.
    apply IH.
    - intros x Hx. apply Hr. apply (subseq_In _ _ (remove_first_subseq rhs body)). exact Hx.
    - pose proof (remove_first_length rhs body Hin (Hr _ Hin)). lia.
  Qed.

  (* the requested statement, in its strongest form: order preserving sub-list (hence membership and length);
     holds for ANY as_lit / eqb / superseeds *)
  Theorem remove_superseed_only_removes_proof : forall (l l': list A) (updated: bool),
    _remove_superseed_from_list as_lit eqb ss l = Ok (l', updated) ->
    subseq l' l /\ (forall x, In x l' -> In x l) /\ List.length l' <= List.length l /\
    (updated = false -> l' = l).
  Proof.
    intros l l' updated E. unfold _remove_superseed_from_list in E.
    destruct (remove_loop_spec _ _ _ _ _ E) as [S1 [_ D]].
    split; [exact S1|]. split; [apply subseq_In; exact S1|]. split; [apply subseq_length; exact S1|].
    intros ->. destruct D as [[-> _]|[F _]]; [reflexivity | discriminate].
  Qed.

  (* the result is a fixpoint: no ordered pair of distinct positions (i, j) with _superseeded(l'[i], l'[j]) is left *)
  Theorem remove_superseed_fixpoint_proof : forall (l l': list A) (updated: bool),
    _remove_superseed_from_list as_lit eqb ss l = Ok (l', updated) -> find_pair l' 0 l' = Ok None.
  Proof.
    intros l l' updated E. unfold _remove_superseed_from_list in E.
    destruct (remove_loop_spec _ _ _ _ _ E) as [_ [FP _]]. exact FP.
  Qed.

  (* with a reflexive == (true for clingo ASTs, see lit_eqb_refl / bodyelem_eqb_refl) `updated` says exactly
     whether the list became shorter *)
  Theorem remove_superseed_shrinks_proof : forall (l l': list A) (updated: bool),
    (forall x, In x l -> eqb x x = true) ->
    _remove_superseed_from_list as_lit eqb ss l = Ok (l', updated) ->
    (updated = true -> List.length l' < List.length l) /\ (updated = false <-> l' = l).
  Proof.
    intros l l' updated Hr E. unfold _remove_superseed_from_list in E.
    destruct (remove_loop_spec _ _ _ _ _ E) as [S1 [_ D]].
    assert (Hlt: updated = true -> List.length l' < List.length l).
    { intros ->. destruct D as [[_ F]|[_ [rhs [Hin S2]]]]; [discriminate|].
      apply subseq_length in S2. pose proof (remove_first_length rhs l Hin (Hr _ Hin)). lia. }
    split; [exact Hlt|]. split.
    - intros ->. destruct D as [[-> _]|[F _]]; [reflexivity | discriminate].
    - intros ->. destruct updated; [|reflexivity]. specialize (Hlt eq_refl). lia.
  Qed.

  (* the fuel chosen by the model is never exhausted (== reflexive on the members) *)
  Theorem remove_superseed_no_outoffuel_proof : forall (l: list A),
    (forall x, In x l -> eqb x x = true) -> _remove_superseed_from_list as_lit eqb ss l <> OutOfFuel.
  Proof.
    intros l Hr. unfold _remove_superseed_from_list. apply remove_loop_not_oof; [exact Hr | lia].
  Qed.
End RemoveSpec.

(* the two instances used by _apply_superseeding *)
Theorem remove_superseed_body_no_outoffuel_proof : forall sups body, remove_superseed_body sups body <> OutOfFuel.
Proof.
  intros sups body. unfold remove_superseed_body. apply remove_superseed_no_outoffuel_proof.
  intros x _. apply bodyelem_eqb_refl.
Qed.
Theorem remove_superseed_cond_no_outoffuel_proof : forall sups c, remove_superseed_cond sups c <> OutOfFuel.
Proof.
  intros sups c. unfold remove_superseed_cond. apply remove_superseed_no_outoffuel_proof.
  intros x _. apply lit_eqb_refl.
Qed.

(* without reflexivity the loop can spin: == constantly false on the body  p, p *)
Example remove_superseed_irreflexive_spins :
  _remove_superseed_from_list (fun l: lit => Some l) (fun _ _ => false) []
    [Lit NoSign (ASym (TFun "p" [] false)); Lit NoSign (ASym (TFun "p" [] false))] = OutOfFuel.
Proof. reflexivity. Qed.

(* ====================================================================================== *)
(** * 5. Pass-through of statements that are neither rules nor minimize statements *)

Definition non_rule (st: stmt) : bool :=
  match st with SShowSig _ _ _ | SShowTerm _ _ | SOther _ _ => true | SRule _ _ _ | SMin _ _ _ _ _ => false end.

Lemma apply_superseeding_non_rule sups stm s :
  _apply_superseeding sups stm = Ok s -> non_rule s = non_rule stm /\ (non_rule stm = true -> s = stm).
Proof.
  unfold _apply_superseeding.
  destruct stm as [ln h b|ln w p ts b|n a p|t b|k x]; cbn [stmt_body]; intros E;
    try (inversion E; subst; split; [reflexivity | intros _; reflexivity]).
  - apply rbind_ok in E. destruct E as [bu [_ E]]. apply rbind_ok in E. destruct E as [bu' [_ E]].
    destruct (snd bu || snd bu'); inversion E; subst; simpl; split; (reflexivity || discriminate).
  - apply rbind_ok in E. destruct E as [bu [_ E]]. apply rbind_ok in E. destruct E as [bu' [_ E]].
    destruct (snd bu || snd bu'); inversion E; subst; simpl; split; (reflexivity || discriminate).
Qed.

Lemma remove_boolean_non_rule s r : remove_boolean s = Some r -> non_rule r = non_rule s.
Proof.
  unfold remove_boolean.
  destruct s as [ln h b|ln w p ts b|n a p|t b|k x]; cbn [stmt_body]; intros E;
    try (inversion E; subst; reflexivity).
  - destruct (contains_false _); [discriminate|]. inversion E; subst. reflexivity.
  - destruct (contains_false _); [discriminate|]. inversion E; subst. reflexivity.
Qed.

Lemma remove_boolean_passthrough s : non_rule s = true -> remove_boolean s = Some s.
Proof. destruct s; simpl; try discriminate; reflexivity. Qed.

Definition kept (o: option stmt) : list stmt := match o with Some r => [r] | None => [] end.

Lemma step_filter sups stm s :
  _apply_superseeding sups stm = Ok s -> filter non_rule (kept (remove_boolean s)) = filter non_rule [stm].
Proof.
  intros E. destruct (apply_superseeding_non_rule _ _ _ E) as [K1 K2].
  destruct (non_rule stm) eqn:NR.
  - rewrite (K2 eq_refl). rewrite (remove_boolean_passthrough stm NR). simpl. rewrite NR. reflexivity.
  - simpl. rewrite NR. destruct (remove_boolean s) as [r|] eqn:RB; simpl; [|reflexivity].
    rewrite (remove_boolean_non_rule _ _ RB), K1. reflexivity.
Qed.

Definition exec_step (sups: list Mapping) (acc: result (list stmt)) (stm: stmt) : result (list stmt) :=
  rbind acc (fun new_prg =>
    rbind (_apply_superseeding sups stm) (fun s =>
      match remove_boolean s with
      | Some r => Ok (new_prg ++ [r])
      | None => Ok new_prg
      end)).

Lemma execute_loop_eq sups prg : execute_loop sups prg = fold_left (exec_step sups) prg (Ok []).
Proof. reflexivity. Qed.

Lemma exec_fold_filter sups : forall prg r out,
  fold_left (exec_step sups) prg r = Ok out ->
  exists acc, r = Ok acc /\ filter non_rule out = filter non_rule acc ++ filter non_rule prg.
Proof.
  induction prg as [|stm prg IH]; intros r out E; simpl in E.
  - exists out. split; [exact E|]. simpl. rewrite app_nil_r. reflexivity.
  - destruct (IH _ _ E) as [acc' [E' F]]. unfold exec_step in E'.
    apply rbind_ok in E'. destruct E' as [acc [-> E']].
    apply rbind_ok in E'. destruct E' as [s [Es E']].
    exists acc. split; [reflexivity|].
    pose proof (step_filter _ _ _ Es) as SF.
    assert (Hacc': acc' = acc ++ kept (remove_boolean s)).
    { destruct (remove_boolean s); inversion E'; simpl; [reflexivity | rewrite app_nil_r; reflexivity]. }
    rewrite F, Hacc', filter_app, SF, <- app_assoc.
    change (stm :: prg) with ([stm] ++ prg). rewrite (filter_app non_rule [stm] prg). reflexivity.
Qed.

Lemma execute_loop_passthrough sups prg out :
  execute_loop sups prg = Ok out -> filter non_rule out = filter non_rule prg.
Proof.
  rewrite execute_loop_eq. intros E. destruct (exec_fold_filter _ _ _ _ E) as [acc [Ea F]].
  inversion Ea; subst. exact F.
Qed.

Theorem passthrough_cleanup_proof : forall inputs prg out,
  execute_core inputs prg = Ok out -> filter non_rule out = filter non_rule prg.
Proof.
  intros inputs prg out E. unfold execute_core, execute_core_state in E.
  apply rbind_ok in E. destruct E as [p [E1 E2]]. inversion E2; subst.
  apply rbind_ok in E1. destruct E1 as [sups [_ E1]].
  apply rbind_ok in E1. destruct E1 as [r [E3 E4]]. inversion E4; subst. simpl.
  apply (execute_loop_passthrough _ _ _ E3).
Qed.

(* the same with an explicit old value of self.superseeds *)
Theorem passthrough_cleanup_state_proof : forall inputs sups0 prg out sups,
  execute_core_state inputs sups0 prg = Ok (out, sups) -> filter non_rule out = filter non_rule prg.
Proof.
  intros inputs sups0 prg out sups E. unfold execute_core_state in E.
  apply rbind_ok in E. destruct E as [sups' [_ E1]].
  apply rbind_ok in E1. destruct E1 as [r [E3 E4]]. inversion E4; subst.
  apply (execute_loop_passthrough _ _ _ E3).
Qed.

(* ====================================================================================== *)
Print Assumptions sym_eqb_eq.
Print Assumptions term_eqb_eq.
Print Assumptions list_eqb_term_eq.
Print Assumptions lit_sat_persist_proof.
Print Assumptions lit_sat_persist_all_proof.
Print Assumptions superseeded_same_pred_eq.
Print Assumptions same_pred_implied_weak_proof.
Print Assumptions same_pred_implied_proof.
Print Assumptions same_pred_anon_needed.
Print Assumptions superseeded_lhs_positive_proof.
Print Assumptions superseeded_same_pred_never_negative_proof.
Print Assumptions remove_implied_body_proof.
Print Assumptions remove_implied_body_elems_proof.
Print Assumptions remove_superseed_only_removes_proof.
Print Assumptions remove_superseed_fixpoint_proof.
Print Assumptions remove_superseed_shrinks_proof.
Print Assumptions remove_superseed_no_outoffuel_proof.
Print Assumptions remove_superseed_body_no_outoffuel_proof.
Print Assumptions remove_superseed_cond_no_outoffuel_proof.
Print Assumptions passthrough_cleanup_proof.
Print Assumptions passthrough_cleanup_state_proof.
