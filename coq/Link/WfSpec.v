(* C04 (lexical part): every predicate / variable name the modelled naming functions can produce is a valid
   gringo identifier. The prefixes come from the generated Gen/Names.v. *)
From Coq Require Import List String Ascii Bool Arith.
From NGO Require Import Syntax.Ast Syntax.Wf Gen.Names Model.Traverse Model.Globals Link.GlobalsSpec.
Import ListNotations.
Open Scope string_scope.

Lemma digit_char_ident d : ident_char (digit_char d) = true.
Proof. do 10 (destruct d as [|d]; [reflexivity|]). reflexivity. Qed.

Lemma string_of_nat_aux_ident fuel n acc : all_ident_chars acc = true -> all_ident_chars (string_of_nat_aux fuel n acc) = true.
Proof.
  revert n acc. induction fuel as [|f IH]; intros n acc Ha; [exact Ha|]. cbn [string_of_nat_aux].
  assert (X: all_ident_chars (String (digit_char (n mod 10)) acc) = true).
  { change (andb (ident_char (digit_char (n mod 10))) (all_ident_chars acc) = true). rewrite digit_char_ident, Ha. reflexivity. }
  destruct (Nat.eqb (n / 10) 0); [exact X | apply IH; exact X].
Qed.

Theorem string_of_nat_ident_proof : forall n, all_ident_chars (string_of_nat n) = true.
Proof. intro n. apply string_of_nat_aux_ident. reflexivity. Qed.

(* the name prefixes of utils/globals.py are valid predicate-name prefixes, the variables valid variable names *)
Theorem name_constants_valid_proof :
  valid_pred_name AUX_FUNC = true /\ valid_pred_name CHAIN_STR = true /\ valid_pred_name MIN_STR = true /\
  valid_pred_name MAX_STR = true /\ valid_pred_name NEXT_STR = true /\ valid_pred_name DOM_STR = true /\
  valid_pred_name AGG_STR = true /\
  valid_var_name NEXT_name = true /\ valid_var_name PREV_name = true /\ valid_var_name AUX_VAR_name = true.
Proof. repeat split; reflexivity. Qed.

Theorem aux_names_valid_proof : forall k, valid_pred_name (AUX_FUNC ++ string_of_nat k) = true.
Proof. intro k. apply valid_name_app; [reflexivity | apply string_of_nat_ident_proof]. Qed.

(* a prefix constant followed by any valid predicate name (e.g. __dom_ ++ p) is valid *)
Lemma valid_pred_all_ident s : valid_pred_name s = true -> all_ident_chars s = true.
Proof.
  unfold valid_pred_name. induction s as [|c s IH]; simpl; [discriminate|].
  destruct (is_underscore c) eqn:U.
  - intro V. unfold ident_char. rewrite U. rewrite (IH V). repeat rewrite orb_true_r. reflexivity.
  - intro V. apply andb_true_iff in V. destruct V as [L R]. unfold ident_char. rewrite L, R. reflexivity.
Qed.
Theorem prefixed_name_valid_proof : forall p, valid_pred_name p = true ->
  valid_pred_name (DOM_STR ++ p) = true /\ valid_pred_name (MIN_STR ++ p) = true /\ valid_pred_name (MAX_STR ++ p) = true /\
  valid_pred_name (NEXT_STR ++ p) = true /\ valid_pred_name (CHAIN_STR ++ p) = true.
Proof.
  intros p V. pose proof (valid_pred_all_ident p V) as I.
  repeat split; apply valid_name_app; try reflexivity; exact I.
Qed.

(* numbered variants of a valid name stay valid: new_predicate (similar ++ k) and make_unique (var ++ k) *)
Theorem numbered_names_valid_proof : forall s k,
  (valid_pred_name s = true -> valid_pred_name (s ++ string_of_nat k) = true) /\
  (valid_var_name s = true -> valid_var_name (s ++ string_of_nat k) = true).
Proof. intros s k. split; intro V; apply valid_name_app; try exact V; apply string_of_nat_ident_proof. Qed.

(* the defect: sum_chains emits Variable("none"), which is not a variable name *)
Theorem none_is_not_a_variable_proof : valid_var_name "none" = false /\ valid_pred_name "none" = true.
Proof. split; reflexivity. Qed.
