(* ProjectionTranslator.execute of ngo/projection.py including its first line
   `prg = inline_arithmetic(prg)`; kept apart from Model/Projection.v so that the latter does not
   depend on Model/Normalize.v.  No proofs here. *)
From Coq Require Import List String ZArith Bool.
From NGO Require Import Syntax.Ast Model.Globals Model.Normalize Model.Projection.
Import ListNotations.

(* ProjectionTranslator(ctor_prg, input_predicates).execute(prg): the UniqueNames object is built from
   the constructor's program, *before* the arithmetic is inlined *)
Definition execute_state (ctor_prg: list stmt) (input_predicates: list pred) (prg: list stmt)
  : result (list stmt * unames) :=
  rbind (Normalize.inline_arithmetic prg) (fun prg' =>
  execute_loop (init_names ctor_prg input_predicates) prg').
Definition execute (ctor_prg: list stmt) (input_predicates: list pred) (prg: list stmt) : result (list stmt) :=
  rbind (execute_state ctor_prg input_predicates prg) (fun r => Ok (fst r)).
