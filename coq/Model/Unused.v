(* Executable model of ngo/unused.py (UnusedTranslator, 278 lines) and of the class RuleDependency
   (ngo/dependency.py:46-84), function by function, same names.  No proofs here.
   Correspondence families: vlib/fam_unused.py
     unused_anonymize, unused_usage, unused_project, unused_remove, unused_rule_dependency,
     unused_single_copies, unused_execute_core          (unused_execute lives in Model/UnusedExecute.v)

   Conventions
   * The object state of UnusedTranslator (unique_names, used, used_positions, new_names) is the record
     `ustate`; input_predicates / output_predicates never change and are ordinary arguments.
     Methods that write the state take it and return the new one.
   * Python sets (`used`, the values of `used_positions`, the local `used` of remove_single_copies) are
     duplicate-free lists in insertion order; only membership is ever observed by the code.
     `used_positions` is a defaultdict(set): an association list in key-insertion order; the model also
     creates the keys that a mere read `self.used_positions[pred]` creates.
   * collect_ast / transform_ast (utils/ast.py:154-189) are built on clingo.ast.Transformer: children are
     visited top-down in `child_keys` order and a node with a `visit_<kind>` method is handed to the
     function WITHOUT visiting its children.  So collect_ast(x, "Function") yields the outermost Function
     nodes only (`funcs_*`), and transform_ast(x, "Variable" / "SymbolicAtom", f) is a plain map because
     these nodes do not contain nodes of their own kind (`vmap_*`, `tr_*`).
   * A clingo Function node is the pair (name, arguments) (`fsym`); the `external` flag is kept by
     `term.update(...)` in `transform` and is False in the atoms built by Mapper.convert.
   * In-place mutation: transform_body_ast_except_aggregate assigns to stm.body[index], so the statements
     of the list handed to _anonymize_variables are changed too.  The only place where this is observable
     is the loop of `execute`: `new_prg` holds the very same statement objects, so the final test
     `prg == new_prg` compares against the ANONYMIZED program (see execute_loop).
   * Fragment: theory atoms are opaque text in the mirror and #external / #edge / #heuristic / #project
     statements are opaque `SOther` nodes, but the Python scans / rewrites their insides; programs that
     contain them are answered with OutOfFragment (`opaque_stmt`).  All other SOther kinds (#program,
     #const, #defined, comments, scripts, theory definitions) contain no SymbolicAtom, are ignored by the
     Python and are inside the fragment.
   * Mapper.__init__ iterates over a Python *set* of Variable nodes and calls uv.make_unique in that
     (hash) order.  The names handed out do not depend on the order whenever the names computed for
     each variable separately (against the variables of the rule only) are pairwise different; the model
     uses the order of first occurrence and answers OutOfFragment in the remaining contrived case
     (e.g. head variables A and A1 in a rule that also contains A0 .. A9), see `mapper_init`. *)
From Coq Require Import List String ZArith Bool Arith.
From NGO Require Import Syntax.Ast Model.Traverse Model.Globals.
Import ListNotations.
Open Scope string_scope. Open Scope list_scope.

(* ------------------------------------------------------------------------------------------ *)
(* small helpers                                                                               *)
(* ------------------------------------------------------------------------------------------ *)
Definition fsym := (string * list term)%type.                 (* a Function node: name, arguments *)
Definition fsym_pred (f: fsym) : pred := (fst f, List.length (snd f)).

(* enumerate(l) *)
Definition enumerate {A} (l: list A) : list (nat * A) := combine (seq 0 (List.length l)) l.

(* arg == Variable(LOC, "_") *)
Definition is_anon (t: term) : bool := match t with TVar x => String.eqb x "_" | _ => false end.
Definition _anon : term := TVar "_".

Definition nmem (n: nat) (l: list nat) : bool := existsb (Nat.eqb n) l.
Definition nadd (n: nat) (l: list nat) : list nat := if nmem n l then l else l ++ [n].

(* set(iterable of variable names) in order of first occurrence *)
Definition sdedup (l: list string) : list string :=
  fold_left (fun acc x => if smem x acc then acc else acc ++ [x]) l [].

Fixpoint nodup_str (l: list string) : bool :=
  match l with [] => true | x :: r => negb (smem x r) && nodup_str r end.

(* utils.ast.is_predicate on a Literal (a ConditionalLiteral is never a predicate) *)
Definition lit_fsym (l: lit) : option fsym :=
  match l with Lit _ (ASym (TFun n args _)) => Some (n, args) | _ => None end.
Definition lit_sign (l: lit) : sign := match l with Lit s _ => s end.

(* ------------------------------------------------------------------------------------------ *)
(* fragment                                                                                    *)
(* ------------------------------------------------------------------------------------------ *)
(* statement kinds whose body / atom is scanned or rewritten by the Python but opaque in the mirror *)
Definition opaque_kind (k: string) : bool :=
  existsb (String.eqb k)
    ["ASTType.External"; "ASTType.Edge"; "ASTType.Heuristic"; "ASTType.ProjectAtom"; "ASTType.ProjectSignature"].

Definition opaque_stmt (s: stmt) : bool :=
  match s with
  | SOther k _ => opaque_kind k
  | _ => opaque_vars s                      (* contains a theory atom (Model/Globals.v) *)
  end.
Definition prog_in_fragment (prg: list stmt) : bool := negb (existsb opaque_stmt prg).

(* ------------------------------------------------------------------------------------------ *)
(* collect_ast(x, "Function"): outermost Function nodes in visiting order                       *)
(* ------------------------------------------------------------------------------------------ *)
Fixpoint funcs_term (t: term) : list fsym :=
  match t with
  | TVar _ => []
  | TSym _ => []
  | TUn _ t => funcs_term t
  | TBin _ l r => funcs_term l ++ funcs_term r
  | TInterval l r => funcs_term l ++ funcs_term r
  | TFun n args _ => [(n, args)]            (* not descended *)
  | TPool alts => flat_map funcs_term alts
  end.
Definition funcs_guard (g: guard) := funcs_term (snd g).
Definition funcs_oguard (g: option guard) := match g with Some g => funcs_guard g | None => [] end.

Fixpoint funcs_atom (a: atom) : list fsym :=
  match a with
  | ASym t => funcs_term t                  (* the symbol of p(X) is itself a Function node *)
  | ACmp t gs => funcs_term t ++ flat_map funcs_guard gs
  | ABool _ => []
  | ABodyAgg lg _ es rg =>
      funcs_oguard lg ++ flat_map (fun e => flat_map funcs_term (fst e) ++ flat_map funcs_lit (snd e)) es
      ++ funcs_oguard rg
  | AAgg lg es rg =>
      funcs_oguard lg ++ flat_map (fun e => funcs_lit (fst e) ++ flat_map funcs_lit (snd e)) es ++ funcs_oguard rg
  | ATheory _ => []                         (* outside the fragment *)
  end
with funcs_lit (l: lit) : list fsym := match l with Lit _ a => funcs_atom a end.

Definition funcs_bodyelem (b: bodyelem) : list fsym :=
  match b with BLit l => funcs_lit l | BCond l c => funcs_lit l ++ flat_map funcs_lit c end.

(* ------------------------------------------------------------------------------------------ *)
(* transform_ast(x, "Variable", f)                                                             *)
(* ------------------------------------------------------------------------------------------ *)
Fixpoint vmap_term (f: string -> term) (t: term) : term :=
  match t with
  | TVar x => f x
  | TSym _ => t
  | TUn o a => TUn o (vmap_term f a)
  | TBin o l r => TBin o (vmap_term f l) (vmap_term f r)
  | TInterval l r => TInterval (vmap_term f l) (vmap_term f r)
  | TFun n args e => TFun n (map (vmap_term f) args) e
  | TPool alts => TPool (map (vmap_term f) alts)
  end.
Definition vmap_guard (f: string -> term) (g: guard) : guard := (fst g, vmap_term f (snd g)).
Definition vmap_oguard (f: string -> term) (g: option guard) : option guard := option_map (vmap_guard f) g.

Fixpoint vmap_atom (f: string -> term) (a: atom) : atom :=
  match a with
  | ASym t => ASym (vmap_term f t)
  | ACmp t gs => ACmp (vmap_term f t) (map (vmap_guard f) gs)
  | ABool _ => a
  | ABodyAgg lg fn es rg =>
      ABodyAgg (vmap_oguard f lg) fn
        (map (fun e => (map (vmap_term f) (fst e), map (vmap_lit f) (snd e))) es) (vmap_oguard f rg)
  | AAgg lg es rg =>
      AAgg (vmap_oguard f lg) (map (fun e => (vmap_lit f (fst e), map (vmap_lit f) (snd e))) es) (vmap_oguard f rg)
  | ATheory _ => a                          (* outside the fragment *)
  end
with vmap_lit (f: string -> term) (l: lit) : lit := match l with Lit s a => Lit s (vmap_atom f a) end.

Definition vmap_bodyelem (f: string -> term) (b: bodyelem) : bodyelem :=
  match b with
  | BLit l => BLit (vmap_lit f l)
  | BCond l c => BCond (vmap_lit f l) (map (vmap_lit f) c)
  end.

(* ------------------------------------------------------------------------------------------ *)
(* transform_ast(x, "SymbolicAtom", f) with a function that reads and writes object state       *)
(* ------------------------------------------------------------------------------------------ *)
Section StateMap.
  Context {S A B: Type} (g: A -> S -> result (B * S)).
  Fixpoint smapM (l: list A) (st: S) : result (list B * S) :=
    match l with
    | [] => Ok ([], st)
    | a :: r => rbind (g a st) (fun x => rbind (smapM r (snd x)) (fun y => Ok (fst x :: fst y, snd y)))
    end.
End StateMap.

Section TransformSymbolicAtom.
  (* f gets the symbol of the SymbolicAtom and returns the symbol of the SymbolicAtom it returns *)
  Context {S: Type} (f: term -> S -> result (term * S)).

  Fixpoint tr_atom (a: atom) (st: S) {struct a} : result (atom * S) :=
    match a with
    | ASym t => rbind (f t st) (fun r => Ok (ASym (fst r), snd r))
    | ABodyAgg lg fn es rg =>
        rbind (smapM (fun e st => rbind (smapM tr_lit (snd e) st) (fun r => Ok ((fst e, fst r), snd r))) es st)
              (fun r => Ok (ABodyAgg lg fn (fst r) rg, snd r))
    | AAgg lg es rg =>
        rbind (smapM (fun e st => rbind (tr_lit (fst e) st) (fun l =>
                                  rbind (smapM tr_lit (snd e) (snd l)) (fun r => Ok ((fst l, fst r), snd r)))) es st)
              (fun r => Ok (AAgg lg (fst r) rg, snd r))
    | _ => Ok (a, st)
    end
  with tr_lit (l: lit) (st: S) {struct l} : result (lit * S) :=
    match l with Lit s a => rbind (tr_atom a st) (fun r => Ok (Lit s (fst r), snd r)) end.

  Definition tr_lits (ls: list lit) (st: S) : result (list lit * S) := smapM tr_lit ls st.

  (* ConditionalLiteral: literal, condition *)
  Definition tr_condlit (c: condlit) (st: S) : result (condlit * S) :=
    rbind (tr_lit (fst c) st) (fun l => rbind (tr_lits (snd c) (snd l)) (fun r => Ok ((fst l, fst r), snd r))).

  Definition tr_bodyelem (b: bodyelem) (st: S) : result (bodyelem * S) :=
    match b with
    | BLit l => rbind (tr_lit l st) (fun r => Ok (BLit (fst r), snd r))
    | BCond l c => rbind (tr_condlit (l, c) st) (fun r => Ok (BCond (fst (fst r)) (snd (fst r)), snd r))
    end.
  Definition tr_body (b: list bodyelem) (st: S) : result (list bodyelem * S) := smapM tr_bodyelem b st.

  Definition tr_head (h: head) (st: S) : result (head * S) :=
    match h with
    | HLit l => rbind (tr_lit l st) (fun r => Ok (HLit (fst r), snd r))
    | HDisj es => rbind (smapM tr_condlit es st) (fun r => Ok (HDisj (fst r), snd r))
    | HAgg lg es rg => rbind (smapM tr_condlit es st) (fun r => Ok (HAgg lg (fst r) rg, snd r))
    | HHeadAgg lg fn es rg =>
        rbind (smapM (fun e st => rbind (tr_condlit (snd e) st) (fun r => Ok ((fst e, fst r), snd r))) es st)
              (fun r => Ok (HHeadAgg lg fn (fst r) rg, snd r))
    | HTheory _ => Ok (h, st)               (* outside the fragment *)
    end.

  (* Rule: head, body.  Minimize: weight, priority, terms, body.  ShowTerm: term, body. *)
  Definition tr_stmt (s: stmt) (st: S) : result (stmt * S) :=
    match s with
    | SRule ln h b =>
        rbind (tr_head h st) (fun h' => rbind (tr_body b (snd h')) (fun b' => Ok (SRule ln (fst h') (fst b'), snd b')))
    | SMin ln w p ts b => rbind (tr_body b st) (fun b' => Ok (SMin ln w p ts (fst b'), snd b'))
    | SShowTerm t b => rbind (tr_body b st) (fun b' => Ok (SShowTerm t (fst b'), snd b'))
    | SShowSig _ _ _ => Ok (s, st)
    | SOther _ _ => Ok (s, st)              (* opaque kinds are outside the fragment *)
    end.

  Definition tr_prog (prg: list stmt) (st: S) : result (list stmt * S) := smapM tr_stmt prg st.
End TransformSymbolicAtom.

(* ------------------------------------------------------------------------------------------ *)
(* object state                                                                                *)
(* ------------------------------------------------------------------------------------------ *)
Definition positions := list (pred * list nat).            (* defaultdict(set) *)
Definition names_map := list ((pred * pred) * string).     (* dict[(orig_pred, new_pred)] -> name *)

Record ustate := mk_ustate {
  unique_names : unames;
  used : list pred;
  used_positions : positions;
  new_names : names_map
}.

(* UnusedTranslator.__init__ *)
Definition init_state (prg: list stmt) (input_predicates: list pred) : ustate :=
  mk_ustate (init_names prg input_predicates) [] [] [].

Fixpoint pos_lookup (p: pred) (d: positions) : option (list nat) :=
  match d with
  | [] => None
  | (q, s) :: r => if pred_eqb p q then Some s else pos_lookup p r
  end.
(* d[p]: the read creates the key *)
Definition pos_touch (p: pred) (d: positions) : positions :=
  match pos_lookup p d with Some _ => d | None => d ++ [(p, [])] end.
Definition pos_get (p: pred) (d: positions) : list nat :=
  match pos_lookup p d with Some s => s | None => [] end.
Fixpoint pos_set (p: pred) (s: list nat) (d: positions) : positions :=
  match d with
  | [] => []
  | (q, s') :: r => if pred_eqb p q then (q, s) :: r else (q, s') :: pos_set p s r
  end.
(* d[p].add(i) *)
Definition pos_add (p: pred) (i: nat) (d: positions) : positions :=
  let d := pos_touch p d in pos_set p (nadd i (pos_get p d)) d.
(* d[p].update(is) *)
Definition pos_update (p: pred) (is_: list nat) (d: positions) : positions :=
  let d := pos_touch p d in pos_set p (fold_left (fun s i => nadd i s) is_ (pos_get p d)) d.

Definition key_eqb (a b: pred * pred) : bool := pred_eqb (fst a) (fst b) && pred_eqb (snd a) (snd b).
Fixpoint names_lookup (k: pred * pred) (d: names_map) : option string :=
  match d with
  | [] => None
  | (k', n) :: r => if key_eqb k k' then Some n else names_lookup k r
  end.

(* ------------------------------------------------------------------------------------------ *)
(* transform_body_ast_except_aggregate / _anonymize_variables (unused.py:34-56)                 *)
(* ------------------------------------------------------------------------------------------ *)
Definition is_aggregate_lit (b: bodyelem) : bool :=
  match b with
  | BLit (Lit _ (AAgg _ _ _)) => true
  | BLit (Lit _ (ABodyAgg _ _ _ _)) => true
  | _ => false
  end.

(* specialised to ast_type = "Variable" (its only use) *)
Definition transform_body_ast_except_aggregate (body: list bodyelem) (func: string -> term) : list bodyelem :=
  map (fun part => if is_aggregate_lit part then part else vmap_bodyelem func part) body.

(* Counter(collect_ast(stm, "Variable"))[var] *)
Definition count_var (collection: list string) (x: string) : nat :=
  List.length (filter (String.eqb x) collection).

Definition anom_var (collection: list string) (var: string) : term :=
  if Nat.eqb (count_var collection var) 1 then _anon else TVar var.

Definition _anonymize_stm (stm: stmt) : result stmt :=
  match stm with
  | SRule ln h body =>
      if opaque_vars stm then OutOfFragment
      else Ok (SRule ln h (transform_body_ast_except_aggregate body (anom_var (vars_stmt stm))))
  | SMin ln w p ts body =>
      if opaque_vars stm then OutOfFragment
      else Ok (SMin ln w p ts (transform_body_ast_except_aggregate body (anom_var (vars_stmt stm))))
  | _ => Ok stm
  end.

Fixpoint rmap {A B} (f: A -> result B) (l: list A) : result (list B) :=
  match l with
  | [] => Ok []
  | a :: r => rbind (f a) (fun b => rbind (rmap f r) (fun t => Ok (b :: t)))
  end.

(* returns the new list; the statements of the argument list are mutated to the same values *)
Definition _anonymize_variables (prg: list stmt) : result (list stmt) := rmap _anonymize_stm prg.

(* ------------------------------------------------------------------------------------------ *)
(* _add_usage_stm / _add_usage / analyze_usage (unused.py:58-107)                               *)
(* ------------------------------------------------------------------------------------------ *)
Definition usage := (list pred * positions)%type.           (* self.used, self.used_positions *)

Definition _add_usage_func (acc: usage) (func: fsym) : usage :=
  let pred := fsym_pred func in
  (padd pred (fst acc),
   fold_left (fun d ia => if is_anon (snd ia) then d else pos_add pred (fst ia) d) (enumerate (snd func)) (snd acc)).

Definition _add_usage_lit (acc: usage) (l: lit) : usage := fold_left _add_usage_func (funcs_lit l) acc.
Definition _add_usage_lits (acc: usage) (ls: list lit) : usage := fold_left _add_usage_lit ls acc.
Definition _add_usage_stm (acc: usage) (b: bodyelem) : usage := fold_left _add_usage_func (funcs_bodyelem b) acc.
Definition _add_usage (acc: usage) (stms: list bodyelem) : usage := fold_left _add_usage_stm stms acc.

Definition add_signature (acc: usage) (p: pred) : usage :=
  (padd p (fst acc), pos_update p (seq 0 (snd p)) (snd acc)).

(* one iteration of the loop `for stm in prg` *)
Definition analyze_usage_stm (acc: usage) (stm: stmt) : result usage :=
  match stm with
  | SRule _ h body =>
      let acc := _add_usage acc body in
      match h with
      | HLit _ => Ok acc                                    (* a plain head is no usage *)
      | HDisj es | HAgg _ es _ =>
          let acc := fold_left (fun acc e => _add_usage_lits acc (snd e)) es acc in
          Ok (fold_left (fun acc e => _add_usage_lit acc (fst e)) es acc)
      | HHeadAgg _ _ es _ =>
          (* elem.condition is a ConditionalLiteral node, scanned as one statement (fix 2) *)
          Ok (fold_left (fun acc e => _add_usage_stm acc (BCond (fst (snd e)) (snd (snd e)))) es acc)
      | HTheory _ => OutOfFragment
      end
  | SMin _ _ _ _ body => Ok (_add_usage acc body)           (* weight, priority and terms are not scanned *)
  | SShowSig n a _ => Ok (add_signature acc (n, a))
  | SShowTerm _ _ => Ok acc                                 (* not scanned at all *)
  | SOther k _ => if opaque_kind k then OutOfFragment else Ok acc
  end.

Definition analyze_usage_prg (input_predicates output_predicates: list pred) (prg: list stmt) : result usage :=
  if negb (prog_in_fragment prg) then OutOfFragment else
  rbind (fold_left (fun acc stm => rbind acc (fun acc => analyze_usage_stm acc stm)) prg (Ok ([], [])))
        (fun acc => Ok (fold_left add_signature (input_predicates ++ output_predicates) acc)).

Definition analyze_usage (input_predicates output_predicates: list pred) (st: ustate) (prg: list stmt)
  : result ustate :=
  rbind (analyze_usage_prg input_predicates output_predicates prg) (fun u =>
  Ok (mk_ustate (unique_names st) (fst u) (snd u) (new_names st))).

(* ------------------------------------------------------------------------------------------ *)
(* _new_name / transform / _project_unused_stm / project_unused (unused.py:109-142)             *)
(* ------------------------------------------------------------------------------------------ *)
Definition _new_name (st: ustate) (orig_pred new_pred: pred) : result (string * ustate) :=
  match names_lookup (orig_pred, new_pred) (new_names st) with
  | Some n => Ok (n, st)
  | None =>
      rbind (new_predicate (unique_names st) (fst new_pred) (snd new_pred)) (fun r =>
      let name := fst (fst r) in
      Ok (name, mk_ustate (snd r) (padd (name, snd new_pred) (used st)) (used_positions st)
                          (new_names st ++ [((orig_pred, new_pred), name)])))
  end.

(* transform(atom) on atom.symbol *)
Definition transform (symbol: term) (st: ustate) : result (term * ustate) :=
  match symbol with
  | TFun name arguments ext =>
      let pred := (name, List.length arguments) in
      (* `x in self.used_positions[pred]` is evaluated (and creates the key) iff arity > 0 *)
      let st := match arguments with
                | [] => st
                | _ => mk_ustate (unique_names st) (used st) (pos_touch pred (used_positions st)) (new_names st)
                end in
      let keep := pos_get pred (used_positions st) in
      let args := flat_map (fun ia => if nmem (fst ia) keep then [snd ia] else []) (enumerate arguments) in
      if negb (list_eqb term_eqb args arguments) then
        rbind (_new_name st pred (name, List.length args)) (fun r => Ok (TFun (fst r) args ext, snd r))
      else Ok (symbol, st)
  | _ => Ok (symbol, st)
  end.

Definition _project_unused_stm (stm: stmt) (st: ustate) : result (stmt * ustate) := tr_stmt transform stm st.

Definition project_unused (st: ustate) (prg: list stmt) : result (list stmt * ustate) :=
  if negb (prog_in_fragment prg) then OutOfFragment else smapM _project_unused_stm prg st.

(* ------------------------------------------------------------------------------------------ *)
(* remove_unused (unused.py:144-163)                                                           *)
(* ------------------------------------------------------------------------------------------ *)
Definition remove_unused (st: ustate) (prg: list stmt) : list stmt :=
  filter (fun stm =>
    match stm with
    | SRule _ (HLit (Lit NoSign (ASym (TFun name args _)))) _ => pmem (name, List.length args) (used st)
    | _ => true
    end) prg.

(* ------------------------------------------------------------------------------------------ *)
(* RuleDependency (dependency.py:46-84)                                                        *)
(* ------------------------------------------------------------------------------------------ *)
Section DefaultDictList.
  Context {V: Type}.
  Definition ddict := list (pred * list V).                 (* defaultdict(list), key-insertion order *)
  Fixpoint dd_get (p: pred) (d: ddict) : list V :=
    match d with
    | [] => []
    | (q, l) :: r => if pred_eqb p q then l else dd_get p r
    end.
  (* d[p].append(v) *)
  Fixpoint dd_append (p: pred) (v: V) (d: ddict) : ddict :=
    match d with
    | [] => [(p, [v])]
    | (q, l) :: r => if pred_eqb p q then (q, l ++ [v]) :: r else (q, l) :: dd_append p v r
    end.
End DefaultDictList.

Record rule_dependency := mk_rd {
  head2bodies : @ddict (list bodyelem);
  head2rules : @ddict stmt;
  pred2stm : @ddict stmt
}.

Definition rd_add_stmt (rd: rule_dependency) (stm: stmt) : rule_dependency :=
  let rd :=
    match stm with
    | SRule _ _ body =>
        fold_left (fun rd hd => mk_rd (dd_append hd body (head2bodies rd)) (dd_append hd stm (head2rules rd)) (pred2stm rd))
                  (map snd (headderivable stm)) rd
    | _ => rd
    end in
  fold_left (fun rd p => mk_rd (head2bodies rd) (head2rules rd) (dd_append p stm (pred2stm rd)))
            (map snd (body_predicates all_signs stm ++ minimize_predicates all_signs stm)) rd.

(* RuleDependency.__init__ *)
Definition RuleDependency (prg: list stmt) : rule_dependency := fold_left rd_add_stmt prg (mk_rd [] [] []).

(* the getters; on a key that is absent the Python additionally inserts it (defaultdict), which changes
   later answers of get_headderivable_predicates -- never done by unused.py *)
Definition get_bodies (rd: rule_dependency) (hd: pred) : list (list bodyelem) := dd_get hd (head2bodies rd).
Definition get_rules_that_derive (rd: rule_dependency) (hd: pred) : list stmt := dd_get hd (head2rules rd).
Definition get_headderivable_predicates (rd: rule_dependency) : list pred := map fst (head2bodies rd).
Definition get_statements_that_use (rd: rule_dependency) (p: pred) : list stmt := dd_get p (pred2stm rd).

(* ------------------------------------------------------------------------------------------ *)
(* Mapper (unused.py:165-213)                                                                  *)
(* ------------------------------------------------------------------------------------------ *)
Record Mapper := mk_mapper {
  rule_id : nat;
  m_arguments : list term;                  (* the head arguments, variables made unique *)
  m_symbol : fsym                           (* the body symbol, same renaming *)
}.

Definition map_lookup (x: string) (m: list (string * string)) : option string :=
  match find (fun p => String.eqb x (fst p)) m with Some p => Some (snd p) | None => None end.

(* Mapper.__init__(uv, rule_id, arguments, symbol); uv = UniqueVariables(rule) is given by its _allvars *)
Definition mapper_init (allvars: list string) (rid: nat) (arguments: list term) (symbol: fsym) : result Mapper :=
  let vars_ := sdedup (flat_map vars_term arguments) in
  (* order independence of `for v in vars_` (a Python set): see the header *)
  rbind (rmap (fun v => rbind (make_unique allvars v) (fun r => Ok (fst r))) vars_) (fun separately =>
  if negb (nodup_str separately) then OutOfFragment else
  rbind (run_make_unique allvars vars_) (fun r =>
  let map_ := combine vars_ (snd r) in
  let replace := fun var => match map_lookup var map_ with Some n => TVar n | None => TVar var end in
  Ok (mk_mapper rid (map (vmap_term replace) arguments) (fst symbol, map (vmap_term replace) (snd symbol))))).

(* Mapper.convert(arguments): the symbol (name, arguments) of the returned SymbolicAtom *)
Definition mapper_convert (m: Mapper) (arguments: list term) : fsym :=
  (* replace(input_, old, new): old is a Variable node or any other term; only Variable nodes are visited *)
  let replace := fun (old new: term) (input_: string) => if term_eqb (TVar input_) old then new else TVar input_ in
  let args := map (fun a => fold_left (fun a hn => vmap_term (replace (fst hn) (snd hn)) a)
                                       (combine (m_arguments m) arguments) a)
                  (snd (m_symbol m)) in
  let old_vars := flat_map vars_term arguments in
  let replace_rest := fun input_ => if negb (smem input_ old_vars) then TVar "_" else TVar input_ in
  (fst (m_symbol m), map (vmap_term replace_rest) args).

(* ------------------------------------------------------------------------------------------ *)
(* remove_single_copies (unused.py:215-259)                                                    *)
(* ------------------------------------------------------------------------------------------ *)
(* prg.index(x): first statement equal to x *)
Fixpoint index_stmt (x: stmt) (prg: list stmt) (i: nat) : option nat :=
  match prg with
  | [] => None
  | s :: r => if stmt_eqb s x then Some i else index_stmt x r (S i)
  end.

Definition all_variables (ts: list term) : bool :=
  forallb (fun t => match t with TVar _ => true | _ => false end) ts.

(* the body of `for head in rd.get_headderivable_predicates()`: None = continue *)
Definition single_copy_mapper (input_predicates output_predicates: list pred) (prg: list stmt)
           (rd: rule_dependency) (hd: pred) : result (option Mapper) :=
  if pmem hd input_predicates || pmem hd output_predicates then Ok None else
  match get_rules_that_derive rd hd with
  | [SRule ln (HLit hlit) [BLit blit] as rule] =>
      match lit_fsym hlit, lit_fsym blit with
      | Some hsym, Some bsym =>
          if negb (sign_eqb (lit_sign hlit) NoSign) then Ok None
          else if negb (sign_eqb (lit_sign blit) NoSign) then Ok None
          else if negb (all_variables (snd hsym)) then Ok None
          else if negb (Nat.eqb (List.length (snd hsym)) (List.length (snd bsym))) then Ok None
          else if pred_eqb hd (fsym_pred bsym) then Ok None
          else
            rbind (init_vars rule) (fun allvars =>
            match index_stmt rule prg 0 with
            | None => Raise "ValueError"
            | Some rid => rbind (mapper_init allvars rid (snd hsym) bsym) (fun m => Ok (Some m))
            end)
      | _, _ => Ok None
      end
  | _ => Ok None
  end.

Definition mapping := list (pred * Mapper).
Fixpoint mapping_lookup (p: pred) (m: mapping) : option Mapper :=
  match m with
  | [] => None
  | (q, x) :: r => if pred_eqb p q then Some x else mapping_lookup p r
  end.
(* mapping[head] = ... *)
Fixpoint mapping_set (p: pred) (x: Mapper) (m: mapping) : mapping :=
  match m with
  | [] => [(p, x)]
  | (q, y) :: r => if pred_eqb p q then (q, x) :: r else (q, y) :: mapping_set p x r
  end.

Definition single_copy_mapping (input_predicates output_predicates: list pred) (prg: list stmt) : result mapping :=
  let rd := RuleDependency prg in
  fold_left (fun acc hd =>
    rbind acc (fun mp =>
    rbind (single_copy_mapper input_predicates output_predicates prg rd hd) (fun om =>
    match om with Some m => Ok (mapping_set hd m mp) | None => Ok mp end)))
    (get_headderivable_predicates rd) (Ok []).

(* the local function convert(atom) on atom.symbol; the state is the local set `used` *)
Definition sc_convert (mp: mapping) (symbol: term) (used_: list nat) : result (term * list nat) :=
  match symbol with
  | TFun name arguments _ =>
      match mapping_lookup (name, List.length arguments) mp with
      | Some m =>
          let r := mapper_convert m arguments in
          Ok (TFun (fst r) (snd r) false, nadd (rule_id m) used_)
      | None => Ok (symbol, used_)
      end
  | _ => Raise "AttributeError"             (* atom.symbol.name on -p(X) (UnaryOperation) or a Pool *)
  end.

Definition remove_single_copies (input_predicates output_predicates: list pred) (prg: list stmt)
  : result (list stmt) :=
  if negb (prog_in_fragment prg) then OutOfFragment else
  rbind (single_copy_mapping input_predicates output_predicates prg) (fun mp =>
  rbind (tr_prog (sc_convert mp) prg []) (fun r =>
  Ok (flat_map (fun ix => if nmem (fst ix) (snd r) then [] else [snd ix]) (enumerate (fst r))))).

(* ------------------------------------------------------------------------------------------ *)
(* execute without its first line `new_prg = exline_arithmetic(prg)` (unused.py:261-278)        *)
(* ------------------------------------------------------------------------------------------ *)
(* one iteration of the `while True` loop up to the test: (prg, anonymized new_prg, state) *)
Definition execute_step (input_predicates output_predicates: list pred) (st: ustate) (new_prg: list stmt)
  : result (list stmt * list stmt * ustate) :=
  rbind (_anonymize_variables new_prg) (fun prg1 =>
  (* the statements of new_prg have been mutated in place: from here on new_prg is prg1 *)
  rbind (analyze_usage input_predicates output_predicates st prg1) (fun st =>
  rbind (project_unused st prg1) (fun r =>
  let prg3 := remove_unused (snd r) (fst r) in
  rbind (remove_single_copies input_predicates output_predicates prg3) (fun prg4 =>
  Ok (prg4, prg1, snd r))))).

Fixpoint execute_loop (fuel: nat) (input_predicates output_predicates: list pred) (st: ustate)
         (new_prg: list stmt) : result (list stmt * ustate) :=
  match fuel with
  | 0 => OutOfFuel
  | S fuel' =>
      rbind (execute_step input_predicates output_predicates st new_prg) (fun r =>
      let '(prg, new_prg', st') := r in
      if list_eqb stmt_eqb prg new_prg' then Ok (prg, st')
      else execute_loop fuel' input_predicates output_predicates st' prg)
  end.

(* every iteration but the last removes a statement or an argument position of some atom *)
Definition count_positions (prg: list stmt) : nat :=
  match tr_prog (fun t n => Ok (t, match t with TFun _ args _ => n + List.length args | _ => n end)) prg 0 with
  | Ok r => snd r
  | _ => 0
  end.
Definition execute_fuel (prg: list stmt) : nat := S (List.length prg + count_positions prg).

Definition execute_core_st (input_predicates output_predicates: list pred) (st: ustate) (prg: list stmt)
  : result (list stmt * ustate) :=
  execute_loop (execute_fuel prg) input_predicates output_predicates st prg.

(* UnusedTranslator(ctor_prg, ins, outs).execute(prg), exline_arithmetic = identity *)
Definition execute_core (ctor_prg: list stmt) (input_predicates output_predicates: list pred) (prg: list stmt)
  : result (list stmt) :=
  rbind (execute_core_st input_predicates output_predicates (init_state ctor_prg input_predicates) prg)
        (fun r => Ok (fst r)).

(* ------------------------------------------------------------------------------------------ *)
(* comparison helpers for vlib/fam_unused.py                                                   *)
(* ------------------------------------------------------------------------------------------ *)
Definition cresult_eqb {A} (e: A -> A -> bool) (model obs: result A) : bool :=
  match model, obs with
  | OutOfFragment, _ => true                (* not compared *)
  | Ok a, Ok b => e a b
  | Raise k, Raise k' => String.eqb k k'
  | _, _ => false
  end.
Definition in_fragment_b {A} (x: result A) : bool := match x with OutOfFragment => false | _ => true end.

Definition prog_eqb (a b: list stmt) : bool := list_eqb stmt_eqb a b.
Definition chk_rprog (model obs: result (list stmt)) : bool := cresult_eqb prog_eqb model obs.

Definition nset_eqb (a b: list nat) : bool := forallb (fun x => nmem x b) a && forallb (fun x => nmem x a) b.
(* dict[Predicate, set[int]] modulo the order of keys and of set elements *)
Definition positions_eqb (a b: positions) : bool :=
  pset_eqb (map fst a) (map fst b) && nodup_str (map (fun p => (fst (fst p) ++ "/" ++ string_of_nat (snd (fst p)))%string) a)
  && forallb (fun kv => match pos_lookup (fst kv) b with Some s => nset_eqb (snd kv) s | None => false end) a.
Definition usage_eqb (a b: usage) : bool := pset_eqb (fst a) (fst b) && positions_eqb (snd a) (snd b).
Definition chk_usage (model obs: result usage) : bool := cresult_eqb usage_eqb model obs.

Definition names_eqb (a b: names_map) : bool :=
  list_eqb (fun x y => key_eqb (fst x) (fst y) && String.eqb (snd x) (snd y)) a b.
Definition unames_eqb (a b: unames) : bool := Nat.eqb (auxcounter a) (auxcounter b) && pset_eqb (known a) (known b).
Definition ustate_eqb (a b: ustate) : bool :=
  unames_eqb (unique_names a) (unique_names b) && pset_eqb (used a) (used b)
  && positions_eqb (used_positions a) (used_positions b) && names_eqb (new_names a) (new_names b).
(* program and the whole object state after the call *)
Definition chk_project (model obs: result (list stmt * ustate)) : bool :=
  cresult_eqb (fun a b => prog_eqb (fst a) (fst b) && ustate_eqb (snd a) (snd b)) model obs.

(* the dictionaries of RuleDependency: same keys in the same order, same lists *)
Definition ddict_eqb {V} (e: V -> V -> bool) (a b: @ddict V) : bool :=
  list_eqb (fun x y => pred_eqb (fst x) (fst y) && list_eqb e (snd x) (snd y)) a b.
Definition chk_rule_dependency (prg: list stmt) (h2b: @ddict (list bodyelem)) (h2r p2s: @ddict stmt) : bool :=
  let rd := RuleDependency prg in
  ddict_eqb (list_eqb bodyelem_eqb) (head2bodies rd) h2b && ddict_eqb stmt_eqb (head2rules rd) h2r
  && ddict_eqb stmt_eqb (pred2stm rd) p2s
  && list_eqb pred_eqb (get_headderivable_predicates rd) (map fst h2r).

(* the pipeline of one loop iteration up to a given stage, from a fresh object *)
Definition pipeline_usage (ctor_prg: list stmt) (ins outs: list pred) (prg: list stmt) : result (list stmt * ustate) :=
  rbind (_anonymize_variables prg) (fun prg1 =>
  rbind (analyze_usage ins outs (init_state ctor_prg ins) prg1) (fun st => Ok (prg1, st))).
Definition pipeline_project (ctor_prg: list stmt) (ins outs: list pred) (prg: list stmt) : result (list stmt * ustate) :=
  rbind (pipeline_usage ctor_prg ins outs prg) (fun r => project_unused (snd r) (fst r)).
