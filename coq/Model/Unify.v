(* Model of ngo.utils.ast._potentially_unifying / potentially_unifying / potentially_unifying_sequence
   (/repo/src/ngo/utils/ast.py:192-269) and of clingo's term-level AST.unpool().

   _potentially_unifying is a recursive function that *swaps* its arguments before recursing, so it is not
   structurally recursive on either argument; it is modelled by recursion on explicit fuel over a
   non-recursive body `pu_body` that follows the Python case order line by line. The fuel given by `pu`
   (size of both terms + 1) is never exhausted (Link/UnifySpec.v, pu_fuel_enough); the out-of-fuel answer is
   `true`, the conservative one.  No proofs here. *)
From Coq Require Import List String ZArith Bool.
From NGO Require Import Syntax.Ast.
Import ListNotations.
Open Scope string_scope. Open Scope list_scope.

(* ---------- node kind tests (ASTType membership) ---------- *)
Definition is_var (t: term) : bool := match t with TVar _ => true | _ => false end.
Definition is_fun (t: term) : bool := match t with TFun _ _ _ => true | _ => false end.
Definition is_sym (t: term) : bool := match t with TSym _ => true | _ => false end.
(* nfunc = {SymbolicTerm, UnaryOperation, BinaryOperation, Interval} *)
Definition is_nfunc (t: term) : bool :=
  match t with TSym _ | TUn _ _ | TBin _ _ _ | TInterval _ _ => true | _ => false end.

(* ---------- _potentially_unifying ---------- *)
(* one call of the Python function; `rec` stands for the recursive calls *)
Definition pu_body (rec: term -> term -> bool) (lhs rhs: term) : bool :=
  (* if (lhs == rhs) or (ASTType.Variable in (lhs.ast_type, rhs.ast_type)): return True *)
  if term_eqb lhs rhs || (is_var lhs || is_var rhs) then true else
  (* if rhs.ast_type in nfunc: rhs, lhs = lhs, rhs *)
  let (lhs, rhs) := if is_nfunc rhs then (rhs, lhs) else (lhs, rhs) in
  (* if rhs.ast_type == ASTType.Function and lhs.ast_type in nfunc: return False *)
  if is_fun rhs && is_nfunc lhs then false else
  (* if both SymbolicTerm: return bool(lhs == rhs) *)
  if is_sym lhs && is_sym rhs then term_eqb lhs rhs else
  match lhs, rhs with
  (* if both UnaryOperation and same operator_type: recurse on the arguments;
     with different operators no later `if` applies and the final `return True` is reached *)
  | TUn o a, TUn o' b => if unop_eqb o o' then rec a b else true
  (* if both Function: same name, same number of arguments, all(zip(...)) *)
  | TFun n xs _, TFun m ys _ =>
      String.eqb n m && (Nat.eqb (List.length xs) (List.length ys)
        && forallb (fun p => rec (fst p) (snd p)) (combine xs ys))
  | _, _ => true
  end.

Fixpoint pu_fuel (n: nat) (lhs rhs: term) : bool :=
  match n with
  | O => true
  | S n' => pu_body (pu_fuel n') lhs rhs
  end.

Fixpoint term_size (t: term) : nat :=
  match t with
  | TVar _ | TSym _ => 1
  | TUn _ a => S (term_size a)
  | TBin _ l r | TInterval l r => S (term_size l + term_size r)
  | TFun _ xs _ | TPool xs => S (fold_right (fun x acc => term_size x + acc) 0 xs)
  end.

Definition pu (lhs rhs: term) : bool := pu_fuel (S (term_size lhs + term_size rhs)) lhs rhs.

(* ---------- clingo: AST.unpool() on terms ---------- *)
(* gringo's cross_product (libgringo utility.hh) processes the argument positions left to right; for the
   alternatives x1;x2;...;xk of the next position every partial tuple r first gets x1, and after all of these
   come, for every r in order, r+x2, ..., r+xk (measured on clingo 5.8.2, family unify_unpool). *)
Definition cross_step (res: list (list term)) (x: list term) : list (list term) :=
  match x with
  | [] => []
  | x1 :: xs => map (fun r => r ++ [x1]) res ++ flat_map (fun r => map (fun y => r ++ [y]) xs) res
  end.
Definition cross (alts: list (list term)) : list (list term) := fold_left cross_step alts [[]].

Fixpoint unpool_term (t: term) : list term :=
  match t with
  | TVar _ | TSym _ => [t]
  | TUn o a => map (TUn o) (unpool_term a)
  (* fixed attributes: nested loops, the first attribute is the outer loop *)
  | TBin o l r => flat_map (fun l' => map (TBin o l') (unpool_term r)) (unpool_term l)
  | TInterval l r => flat_map (fun l' => map (TInterval l') (unpool_term r)) (unpool_term l)
  | TFun n xs e => map (fun a => TFun n a e) (cross (map unpool_term xs))
  | TPool alts => flat_map unpool_term alts
  end.

(* ---------- potentially_unifying ---------- *)
(* the two asserts (node kind is one of the seven term kinds) cannot fire on `term`.
   itertools.product(A, B): A is the outer loop, as in list_prod *)
Definition potentially_unifying (lhs rhs: term) : bool :=
  existsb (fun p => pu (fst p) (snd p)) (list_prod (unpool_term lhs) (unpool_term rhs)).

(* ---------- potentially_unifying_sequence ---------- *)
Definition potentially_unifying_sequence (lhs rhs: list term) : bool :=
  if negb (Nat.eqb (List.length lhs) (List.length rhs)) then false
  else forallb (fun p => potentially_unifying (fst p) (snd p)) (combine lhs rhs).

(* ---------- correspondence helpers ---------- *)
Definition chk_bool (a b: bool) : bool := Bool.eqb a b.
Definition chk_terms (a b: list term) : bool := list_eqb term_eqb a b.
