(* Executable model of ngo/inline.py (InlineTranslator, all methods) and of
   ngo.utils.ast.AggAnalytics.__init__ (utils/ast.py:110-131).  No proofs here.

   Conventions
   * The object state of InlineTranslator is the record `istate`: the DomainPredicates object built by
     the constructor (only `is_static` is ever asked; it is computed ONCE from the constructor's
     program and never refreshed while `execute` rewrites the program), the input and output
     predicate lists.  `self.minimize_tuples` is an explicit argument of `inline_minimize`.
     The constructor may raise (DomainPredicates does): `it_init` returns a `result`.
   * Python exceptions are `Raise "<class>"`.  The three `while True` loops of `execute` are recursion
     on fuel (every non-final iteration removes one rule, so `S (length prg)` is enough); `OutOfFuel`
     otherwise.
   * `RuleDependency` getters read defaultdicts and thereby insert keys; nothing in inline.py can
     observe that (get_headderivable_predicates is never called), so the `rdstate` is used read-only.
   * `transform_args` maps `trans` over all Variable nodes in visiting order; `trans` asks
     `unique_vars.make_unique` the first time it meets a variable that is not a key of `orig2passed`
     and caches the answer.  The value chosen for a variable therefore only depends on the state at
     its first occurrence: the model first threads `make_unique` over the variables in visiting order
     (`build_map`) and then applies the finished map with the pure `Normalize.vmap_*`.
     The keys of `orig2passed` that are not Variable nodes can never be looked up and are dropped.
   * networkx: the graph `g` of replace_single_rule_for_body is an insertion-ordered association list
     keyed by (orig, blit) (structural equality); `vargraph` is a list of nodes with their "aggr"
     counter plus a list of edges; the connected component of `var` is a fuel-bounded closure.
     No Python set is iterated in an observable way anywhere in inline.py.
   * Fragment: a program with a theory atom in a rule / minimize / #show body, or a pool inside a rule,
     is OutOfFragment (theory atoms are opaque in the mirror; Dependency.dp_init wants pool-free
     rules).  Statements other than rules, minimize and #show (`SOther`) are invisible to inline.py
     and are passed through. *)
From Coq Require Import List String Ascii ZArith Bool Arith.
From NGO Require Import Syntax.Ast Gen.Names Gen.Tables Model.Traverse Model.Corr Model.Globals Model.Binding
     Model.Dependency.
From NGO Require Model.Unify Model.Normalize.
Import ListNotations.
Open Scope string_scope. Open Scope list_scope.

(* ================================================================================================ *)
(* generic helpers                                                                                  *)
(* ================================================================================================ *)
Fixpoint rmap {A B} (f: A -> result B) (l: list A) : result (list B) :=
  match l with
  | [] => Ok []
  | x :: r => rbind (f x) (fun y => rbind (rmap f r) (fun ys => Ok (y :: ys)))
  end.

Definition is_tvar (t: term) : bool := match t with TVar _ => true | _ => false end.
Definition tmem (t: term) (l: list term) : bool := existsb (term_eqb t) l.
Definition count_name (x: string) (l: list string) : nat := List.length (filter (String.eqb x) l).
Definition stmt_body (s: stmt) : list bodyelem :=
  match s with SRule _ _ b => b | SMin _ _ _ _ b => b | SShowTerm _ b => b | _ => [] end.
(* stm.update(body=b) *)
Definition set_body (s: stmt) (b: list bodyelem) : stmt :=
  match s with
  | SRule ln h _ => SRule ln h b
  | SMin ln w p ts _ => SMin ln w p ts b
  | SShowTerm t _ => SShowTerm t b
  | _ => s
  end.
Definition is_bcond (b: bodyelem) : bool := match b with BCond _ _ => true | _ => false end.
Definition is_bodyagg_lit (b: bodyelem) : bool :=
  match b with BLit (Lit _ (ABodyAgg _ _ _ _)) => true | _ => false end.
Definition unblit (b: bodyelem) : list lit := match b with BLit l => [l] | BCond _ _ => [] end.

(* ---------- collect_ast(x, "BodyAggregate") / "Aggregate" / "ConditionalLiteral": outermost nodes ---------- *)
Fixpoint bodyaggs_atom (a: atom) : list atom :=
  match a with
  | ABodyAgg _ _ _ _ => [a]
  | AAgg _ es _ => flat_map (fun e => bodyaggs_lit (fst e) ++ flat_map bodyaggs_lit (snd e)) es
  | _ => []
  end
with bodyaggs_lit (l: lit) : list atom := match l with Lit _ a => bodyaggs_atom a end.
Definition bodyaggs_condlit (c: condlit) : list atom := bodyaggs_lit (fst c) ++ flat_map bodyaggs_lit (snd c).
Definition bodyaggs_bodyelem (b: bodyelem) : list atom :=
  match b with BLit l => bodyaggs_lit l | BCond l c => bodyaggs_condlit (l, c) end.
Definition bodyaggs_head (h: head) : list atom :=
  match h with
  | HLit l => bodyaggs_lit l
  | HDisj es => flat_map bodyaggs_condlit es
  | HAgg _ es _ => flat_map bodyaggs_condlit es
  | HHeadAgg _ _ es _ => flat_map (fun e => bodyaggs_condlit (snd e)) es
  | HTheory _ => []
  end.
Definition bodyaggs_stmt (s: stmt) : list atom :=
  match s with
  | SRule _ h b => bodyaggs_head h ++ flat_map bodyaggs_bodyelem b
  | SMin _ _ _ _ b => flat_map bodyaggs_bodyelem b
  | SShowTerm _ b => flat_map bodyaggs_bodyelem b
  | _ => []
  end.

Fixpoint oldaggs_atom (a: atom) : list atom :=
  match a with
  | AAgg _ _ _ => [a]
  | ABodyAgg _ _ es _ => flat_map (fun e => flat_map oldaggs_lit (snd e)) es
  | _ => []
  end
with oldaggs_lit (l: lit) : list atom := match l with Lit _ a => oldaggs_atom a end.
Definition oldaggs_bodyelem (b: bodyelem) : list atom :=
  match b with BLit l => oldaggs_lit l | BCond l c => oldaggs_lit l ++ flat_map oldaggs_lit c end.

Fixpoint has_condlit_atom (a: atom) : bool :=
  match a with
  | AAgg _ es _ => nonempty es
  | ABodyAgg _ _ es _ => existsb (fun e => existsb has_condlit_lit (snd e)) es
  | _ => false
  end
with has_condlit_lit (l: lit) : bool := match l with Lit _ a => has_condlit_atom a end.
Definition has_condlit_bodyelem (b: bodyelem) : bool :=
  match b with BLit l => has_condlit_lit l | BCond _ _ => true end.

(* ---------- fragment ---------- *)
Definition inline_stmt_in_fragment (s: stmt) : bool :=
  match s with
  | SRule _ _ _ => andb (stmt_in_fragment s) (negb (opaque_vars s))
  | SMin _ _ _ _ _ => negb (opaque_vars s)
  | SShowTerm _ _ => negb (opaque_vars s)
  | _ => true
  end.
Definition inline_in_fragment (prg: list stmt) : bool := forallb inline_stmt_in_fragment prg.

(* ================================================================================================ *)
(* AggAnalytics.__init__  (utils/ast.py:114-131)                                                     *)
(* ================================================================================================ *)
(* (equal_variable_bound, bounds) *)
Definition agg_analytics (lg rg: option guard) : list string * list guard :=
  let l : list string * list guard :=
    match lg with
    | Some (c, t) =>
        match c, t with
        | CEq, TVar x => ([x], [])
        | _, _ => ([], [(rhs2lhs_comparison c, t)])
        end
    | None => ([], [])
    end in
  let r : list string * list guard :=
    match rg with
    | Some (c, t) =>
        match c, t with
        | CEq, TVar x => ([x], [])
        | _, _ => ([], [(c, t)])
        end
    | None => ([], [])
    end in
  (fst l ++ fst r, snd l ++ snd r).

(* ================================================================================================ *)
(* InlineTranslator: state, __init__, analyze_minimize, _info                                        *)
(* ================================================================================================ *)
Record istate := mk_istate { dom : dstate; ipreds : list pred; opreds : list pred }.

Definition it_init (prg: list stmt) (input_predicates output_predicates: list pred) : result istate :=
  if negb (inline_in_fragment prg) then OutOfFragment else
  rbind (dp_init (init_names prg input_predicates) prg) (fun d =>
  Ok (mk_istate d input_predicates output_predicates)).

Definition analyze_minimize (prg: list stmt) : list (list term) :=
  flat_map (fun stm => match stm with SMin _ w p ts _ => [w :: p :: ts] | _ => [] end) prg.

(* (num_aggs, num_conditionals (a bool), num_lits) of a body *)
Definition info (body: list bodyelem) : nat * bool * nat :=
  (fold_left (fun n b => n + (List.length (bodyaggs_bodyelem b) + List.length (oldaggs_bodyelem b))) body 0,
   existsb has_condlit_bodyelem body,
   List.length body).

(* ================================================================================================ *)
(* transform_args                                                                                    *)
(* ================================================================================================ *)
Definition vsubst := list (string * term).
(* dict(zip(orig, passed)), Variable keys only; a repeated key keeps its position and takes the last value *)
Definition o2p_init (orig passed: list term) : vsubst :=
  fold_left (fun m (op: term * term) =>
               match fst op with TVar x => aset String.eqb x (snd op) m | _ => m end)
            (combine orig passed) [].

(* trans() on the variables in visiting order; av is unique_vars._allvars *)
Fixpoint build_map (vs: list string) (m: vsubst) (av: list string) : result (vsubst * list string) :=
  match vs with
  | [] => Ok (m, av)
  | x :: r =>
      if ahas String.eqb x m then build_map r m av
      else rbind (make_unique av x) (fun na => build_map r (m ++ [(x, TVar (fst na))]) (snd na))
  end.
Definition apply_map (m: vsubst) (x: string) : term :=
  match alookup String.eqb x m with Some t => t | None => TVar x end.

(* transform_args(orig, passed, ts + bs + ls, unique_vars): the list of asts is given in three typed
   parts (terms, body elements, literals), processed in this order with ONE orig2passed dict *)
Definition transform_args (orig passed: list term) (ts: list term) (bs: list bodyelem) (ls: list lit)
           (av: list string) : result ((list term * list bodyelem * list lit) * list string) :=
  let vs := flat_map vars_term ts ++ flat_map vars_bodyelem bs ++ flat_map vars_lit ls in
  rbind (build_map vs (o2p_init orig passed) av) (fun mav =>
  let f := apply_map (fst mav) in
  Ok ((map (Normalize.vmap_term f) ts, map (Normalize.vmap_bodyelem f) bs, map (Normalize.vmap_lit f) ls),
      snd mav)).

(* ================================================================================================ *)
(* inline_literal                                                                                    *)
(* ================================================================================================ *)
Definition inline_literal (rule: stmt) (l: lit) (av: list string) : result (list bodyelem * list string) :=
  match rule with
  | SRule _ (HLit (Lit _ (ASym (TFun _ orig_arguments _)))) body =>
      match l with
      | Lit s (ASym (TFun _ passed_arguments _)) =>
          if sign_eqb s Neg then
            match body with
            | [] => Raise "IndexError"
            | BLit (Lit _ a) :: _ =>
                rbind (transform_args orig_arguments passed_arguments [] [] [Lit Neg a] av) (fun r =>
                Ok (map BLit (snd (fst r)), snd r))
            | BCond _ _ :: _ => OutOfFragment        (* ConditionalLiteral.update(sign=...) *)
            end
          else
            rbind (transform_args orig_arguments passed_arguments [] body [] av) (fun r =>
            Ok (snd (fst (fst r)), snd r))
      | _ => Raise "AssertionError"
      end
  | _ => Raise "AttributeError"
  end.

(* ================================================================================================ *)
(* compute_new_body_elements                                                                         *)
(* ================================================================================================ *)
Definition unique_fun : term := TFun "unique" [] false.

(* hargs = rule.head.atom.symbol.arguments, pass_ = replace_cond.atom.symbol.arguments,
   replace_terms = replace_elem.terms, agg_elems = agg.elements, atom_elems = atom.elements *)
Definition compute_new_body_elements (hargs: list term) (rule_body: list bodyelem) (pass_: list term)
           (replace_terms: list term) (agg_elems atom_elems: list belem) (av: list string)
  : result (list belem * list string) :=
  (* max_arity is the longest CONDITION of the outer aggregate (sic) *)
  let max_arity := fold_left (fun m (e: belem) => Nat.max m (List.length (snd e))) atom_elems 0 in
  let rbody := filter (fun b => negb (is_bodyagg_lit b)) rule_body in
  if existsb is_bcond rbody then OutOfFragment else   (* a ConditionalLiteral inside an element condition *)
  fold_left (fun (acc: result (list belem * list string)) (elem: belem) =>
               rbind acc (fun st =>
               rbind (transform_args hargs pass_ (fst elem) rbody (snd elem) (snd st)) (fun r =>
               let '(terms, tb, tc) := fst r in
               let new_terms := terms ++ tl replace_terms in
               let new_terms := new_terms ++ repeat unique_fun (max_arity + 1 - List.length new_terms) in
               Ok (fst st ++ [(new_terms, flat_map unblit tb ++ tc)], snd r))))
            agg_elems (Ok ([], av)).

(* ================================================================================================ *)
(* inline_body_aggregate                                                                             *)
(* ================================================================================================ *)
(* for hv_pos, hv in enumerate(args): if hv == Variable(ev): break   -- without a hit the loop
   variables keep the values of the last iteration; None = no iteration at all *)
Fixpoint find_hv (args: list term) (ev: string) (i: nat) : option (nat * term) :=
  match args with
  | [] => None
  | a :: r =>
      if term_eqb a (TVar ev) then Some (i, a)
      else match r with [] => Some (i, a) | _ => find_hv r ev (S i) end
  end.

(* the last (elem, cond) of the outer aggregate whose condition literal mentions hpred *)
Definition find_replace (hpred: pred) (elems: list belem) : option (belem * lit) :=
  fold_left (fun acc (e: belem) =>
               fold_left (fun acc c =>
                            if pmem hpred (map snd (literal_predicate all_signs c)) then Some (e, c) else acc)
                         (snd e) acc)
            elems None.

Definition inline_body_aggregate (rule: stmt) (a: atom) (av: list string) : result (atom * list string) :=
  match rule, a with
  | SRule _ (HLit (Lit _ (ASym (TFun hname hargs _)))) body, ABodyAgg alg afun aelems arg =>
      let hpred := (hname, List.length hargs) in
      let '(num_aggs, num_cond, _) := info body in
      if andb (negb num_cond) (Nat.eqb num_aggs 1) then
        match bodyaggs_stmt rule with
        | ABodyAgg ilg ifun ielems irg :: _ =>
            let result_function := if aggfun_eqb ifun FSum then FSum else afun in
            if negb (existsb (aggfun_eqb afun) (inline_good ifun)) then Ok (a, av) else
            let eqv := fst (agg_analytics ilg irg) in
            match hargs, eqv with
            | [], _ => Raise "UnboundLocalError"
            | _, [] => Raise "IndexError"
            | _, ev :: _ =>
                match find_hv hargs ev 0 with
                | None => Raise "UnboundLocalError"
                | Some (hv_pos, hv) =>
                    if negb (Nat.eqb (List.length (filter (fun x => term_eqb (TVar x) hv) (vars_stmt rule))) 2)
                    then Ok (a, av) else
                    match find_replace hpred aelems with
                    | None => Ok (a, av)
                    | Some (replace_elem, Lit rs ra) =>
                        if negb (sign_eqb rs NoSign) then Ok (a, av) else
                        let rest_elems := filter (fun e => negb (belem_eqb e replace_elem)) aelems in
                        if existsb (fun x : belem => Unify.potentially_unifying_sequence (fst x) (fst replace_elem))
                                   rest_elems
                        then Ok (a, av) else
                        match ra with
                        | ASym (TFun _ pargs _) =>
                            match fst replace_elem with
                            | [] => Ok (a, av)
                            | t0 :: _ =>
                                match nth_error pargs hv_pos with
                                | None => Raise "IndexError"
                                | Some parg =>
                                    if negb (term_eqb t0 parg) then Ok (a, av) else
                                    rbind (compute_new_body_elements hargs body pargs (fst replace_elem) ielems aelems av)
                                          (fun r =>
                                    Ok (ABodyAgg alg result_function (rest_elems ++ fst r) arg, snd r))
                                end
                            end
                        | _ =>
                            match fst replace_elem with
                            | [] => Ok (a, av)
                            | _ => Raise "AttributeError"
                            end
                        end
                    end
                end
            end
        | _ => Raise "IndexError"       (* collect_ast(rule, "BodyAggregate")[0] *)
        end
      else Ok (a, av)
  | _, _ => Raise "AttributeError"
  end.

(* ================================================================================================ *)
(* inline_minimize / inline_in_minimize                                                              *)
(* ================================================================================================ *)
Definition inline_minimize (minimize_tuples: list (list term)) (stm: stmt) : result (list stmt) :=
  match stm with
  | SMin ln w p ts body =>
      match bodyaggs_stmt stm with
      | [] => Ok [stm]
      | agg :: more =>
          if nonempty more then Ok [stm] else
          match agg with
          | ABodyAgg lg f es rg =>
              if negb (orb (aggfun_eqb f FCount) (orb (aggfun_eqb f FSum) (aggfun_eqb f FSumPlus))) then Ok [stm] else
              let '(eqv, bounds) := agg_analytics lg rg in
              match eqv with
              | [ev] =>
                  if nonempty bounds then Ok [stm] else
                  if negb (term_eqb (TVar ev) w) then Ok [stm] else
                  if negb (Nat.eqb (count_name ev (vars_stmt stm)) 2) then Ok [stm] else
                  let replace_terms := w :: p :: ts in
                  if existsb (fun x => Unify.potentially_unifying_sequence x replace_terms)
                             (filter (fun t => negb (list_eqb term_eqb t replace_terms)) minimize_tuples)
                  then Ok [stm] else
                  let rbody := filter (fun b => match b with
                                                | BLit (Lit _ a) => negb (atom_eqb a agg)
                                                | _ => true end) body in
                  let max_arity : Z :=
                    (fold_left (fun m (t: list term) => Z.max m (Z.of_nat (List.length t))) minimize_tuples 0 - 2)%Z in
                  rmap (fun elem : belem =>
                          rbind (if aggfun_eqb f FCount then Ok (TSym (SNum 1))
                                 else match fst elem with t :: _ => Ok t | [] => Raise "IndexError" end)
                                (fun new_weight =>
                          let new_terms := tl (fst elem) ++ ts in
                          let pad := Z.to_nat (max_arity - Z.of_nat (List.length new_terms) + 1)%Z in
                          Ok (SMin ln new_weight p (new_terms ++ repeat unique_fun pad)
                                   (rbody ++ map BLit (snd elem)))))
                       es
              | _ => Ok [stm]
              end
          | _ => Ok [stm]
          end
      end
  | _ => Ok [stm]
  end.

Definition inline_in_minimize (prg: list stmt) : result (list stmt) :=
  let tuples := analyze_minimize prg in
  rbind (rmap (inline_minimize tuples) prg) (fun l => Ok (List.concat l)).

(* ================================================================================================ *)
(* has_anonymous_vars / is_single / get_body_lit                                                     *)
(* ================================================================================================ *)
Definition has_anonymous_vars (p: pred) (body: list bodyelem) : bool :=
  existsb (fun b => match b with
                    | BLit (Lit _ (ASym (TFun n args _))) =>
                        andb (pred_eqb (n, List.length args) p) (existsb (term_eqb (TVar "_")) args)
                    | _ => false
                    end) body.

Fixpoint index_of_var (ev: string) (args: list term) (i: nat) : option nat :=
  match args with
  | [] => None
  | a :: r => if term_eqb a (TVar ev) then Some i else index_of_var ev r (S i)
  end.

(* Predicate(stm.head.atom.symbol.name, len(...arguments)) for a rule with a predicate head *)
Definition stmt_hpred (stm: stmt) : option pred :=
  match stm with
  | SRule _ (HLit (Lit _ (ASym (TFun n args _)))) _ => Some (n, List.length args)
  | _ => None
  end.

Definition is_single (st: istate) (rd: rdstate) (stm: stmt) : option nat :=
  match stm with
  | SRule _ (HLit (Lit NoSign (ASym (TFun n args _)))) _ =>
      let hpred := (n, List.length args) in
      if orb (existsb (fun a => negb (is_tvar a)) args)
             (negb (Nat.eqb (List.length (sof (flat_map vars_term args))) (List.length args)))
      then None else
      if orb (pmem hpred (ipreds st)) (orb (pmem hpred (opreds st)) (is_static (dom st) hpred)) then None else
      if negb (Nat.eqb (List.length (fst (rd_get_rules_that_derive rd hpred))) 1) then None else
      match fst (rd_get_statements_that_use rd hpred) with
      | [u] =>
          if orb (stmt_eqb u stm) (has_anonymous_vars hpred (stmt_body u)) then None else
          match bodyaggs_stmt stm with
          | [ABodyAgg lg _ _ rg] =>
              let '(eqv, bounds) := agg_analytics lg rg in
              match eqv with
              | [ev] => if nonempty bounds then None else index_of_var ev args 0
              | _ => None
              end
          | _ => None
          end
      | _ => None
      end
  | _ => None
  end.

Definition get_body_lit (stm orig: stmt) : result (option lit) :=
  match stm with
  | SRule _ (HLit (Lit hs (ASym (TFun hn hargs he)))) sbody =>
      let shead := HLit (Lit hs (ASym (TFun hn hargs he))) in
      let hpred := (hn, List.length hargs) in
      (fix go (body: list bodyelem) : result (option lit) :=
         match body with
         | [] => Ok None
         | BLit (Lit s (ASym (TFun n args e))) :: r =>
             let blit := Lit s (ASym (TFun n args e)) in
             if negb (pred_eqb hpred (n, List.length args)) then go r else
             match s with
             | NegNeg => go r
             | NoSign => Ok (Some blit)
             | Neg =>
                 if Nat.ltb 1 (List.length sbody) then go r else
                 rbind (global_vars_inside_head shead) (fun gh =>
                 rbind (global_vars_inside_body sbody) (fun gb =>
                 if negb (sseteq gh gb) then go r else
                 match sbody with
                 | [] => Raise "IndexError"
                 | BLit (Lit s0 _) :: _ => if sign_eqb s0 NoSign then Ok (Some blit) else go r
                 | BCond _ _ :: _ => Raise "AttributeError"
                 end))
             end
         | _ :: r => go r
         end) (stmt_body orig)
  | _ => Raise "AttributeError"
  end.

(* ================================================================================================ *)
(* the graph g of replace_single_rule_for_body and is_connected_to_agregates                         *)
(* ================================================================================================ *)
Definition gkey := (stmt * lit)%type.            (* (orig, blit) *)
Definition gval := (stmt * nat)%type.            (* stm=, index= *)
Definition graph := list (gkey * gval).
Definition gkey_eqb (a b: gkey) : bool := andb (stmt_eqb (fst a) (fst b)) (lit_eqb (snd a) (snd b)).

Definition build_graph (st: istate) (prg: list stmt) : result graph :=
  let rd := rd_init prg in
  fold_left (fun (acc: result graph) stm =>
               rbind acc (fun g =>
               match is_single st rd stm, stmt_hpred stm with
               | Some index, Some hpred =>
                   match fst (rd_get_statements_that_use rd hpred) with
                   | orig :: _ =>
                       rbind (get_body_lit stm orig) (fun ob =>
                       match ob with
                       | None => Ok g
                       | Some blit => Ok (aset gkey_eqb (orig, blit) (stm, index) g)
                       end)
                   | [] => Raise "IndexError"
                   end
               | _, _ => Ok g
               end))
            prg (Ok []).

(* vargraph: nodes with their "aggr" attribute (0 = attribute absent), edges *)
Definition bump (v: term) (ns: list (term * nat)) : list (term * nat) :=
  if existsb (fun n => term_eqb (fst n) v) ns
  then map (fun n => if term_eqb (fst n) v then (fst n, S (snd n)) else n) ns
  else ns ++ [(v, 1)].
Definition vg_add (vs: list term) (ns: list (term * nat)) : list (term * nat) :=
  fold_left (fun ns v => bump v ns) vs ns.
Definition tvars (xs: list string) : list term := map TVar xs.

Fixpoint cc_closure (fuel: nat) (edges: list (term * term)) (s: list term) : list term :=
  match fuel with
  | 0 => s
  | S f =>
      let s' := fold_left (fun acc (e: term * term) =>
                             if andb (tmem (fst e) acc) (negb (tmem (snd e) acc)) then acc ++ [snd e] else acc)
                          edges s in
      if Nat.eqb (List.length s') (List.length s) then s else cc_closure f edges s'
  end.

Definition is_connected_to_agregates (var: term) (orig: stmt) (g: graph) : result bool :=
  let body := stmt_body orig in
  rbind (global_vars_inside_body body) (fun globals_ =>
  rbind (fold_left (fun (acc: result (list (term * nat) * list (term * term))) (blit: bodyelem) =>
                      rbind acc (fun ne =>
                      let '(ns, es) := ne in
                      match blit with
                      | BCond _ _ => Ok (ns, es)
                      | BLit l =>
                          match alookup gkey_eqb (orig, l) g with
                          | Some (_, index) =>
                              match l with
                              | Lit _ (ASym (TFun _ args _)) =>
                                  match nth_error args index with
                                  | Some a => Ok (vg_add [a] ns, es)
                                  | None => Raise "IndexError"
                                  end
                              | _ => Raise "AttributeError"
                              end
                          | None =>
                              match l with
                              | Lit _ (ABodyAgg lg f aes rg) =>
                                  let atom_vars := sof (vars_atom (ABodyAgg lg f aes rg)) in
                                  let ns := vg_add (tvars (vars_oguard lg)) ns in
                                  let ns := vg_add (tvars (vars_oguard rg)) ns in
                                  Ok (vg_add (tvars (filter (fun x => Binding.smem x atom_vars) globals_)) ns, es)
                              | Lit _ (ACmp t gs) =>
                                  let vs := tvars (vars_atom (ACmp t gs)) in
                                  (* permutations(vs, 2); the additional pairs (x, x) are self loops, which the
                                     Python adds to every node anyway *)
                                  Ok (ns, es ++ list_prod vs vs)
                              | _ => Ok (ns, es)
                              end
                          end
                      end))
                   body (Ok ([], [])))
        (fun ne =>
  let '(ns, es) := ne in
  let ns := match orig with SMin _ w _ _ _ => vg_add (tvars (vars_term w)) ns | _ => ns end in
  let is_node := orb (existsb (fun n => term_eqb (fst n) var) ns)
                     (existsb (fun e : term * term => orb (term_eqb (fst e) var) (term_eqb (snd e) var)) es) in
  if negb is_node then Ok false else
  let cc := cc_closure (2 * List.length es + 2) es [var] in
  let total := fold_left (fun acc (n: term * nat) => if tmem (fst n) cc then acc + snd n else acc) ns 0 in
  Ok (Nat.ltb 1 total))).

(* ================================================================================================ *)
(* replace_single_rule_for_body / inline_in_rulebody                                                 *)
(* ================================================================================================ *)
Definition replace_single_rule_for_body (st: istate) (prg: list stmt) : result (list stmt) :=
  rbind (build_graph st prg) (fun g =>
  (fix go (ns: graph) : result (list stmt) :=
     match ns with
     | [] => Ok prg
     | ((orig, blit_), (stm, index_)) :: r =>
         match blit_ with
         | Lit _ (ASym (TFun _ args _)) =>
             match nth_error args index_ with
             | None => Raise "IndexError"
             | Some var =>
                 rbind (is_connected_to_agregates var orig g) (fun c =>
                 if negb c then go r else
                 rbind (init_vars orig) (fun av =>
                 rbind (inline_literal stm blit_ av) (fun rp =>
                 let replace := fst rp in
                 if list_eqb bodyelem_eqb [BLit blit_] replace then go r else
                 let new_body := flat_map (fun l => if bodyelem_eqb l (BLit blit_) then replace else [l])
                                          (stmt_body orig) in
                 Ok (flat_map (fun x => if stmt_eqb x stm then []
                                        else if negb (stmt_eqb x orig) then [x]
                                        else [set_body orig new_body]) prg))))
             end
         | _ => Raise "AttributeError"
         end
     end) g).

Fixpoint inline_in_rulebody_fuel (fuel: nat) (st: istate) (prg: list stmt) : result (list stmt) :=
  match fuel with
  | 0 => OutOfFuel
  | S f =>
      rbind (replace_single_rule_for_body st prg) (fun new_prg =>
      if list_eqb stmt_eqb new_prg prg then Ok prg else inline_in_rulebody_fuel f st new_prg)
  end.
Definition inline_in_rulebody (st: istate) (prg: list stmt) : result (list stmt) :=
  inline_in_rulebody_fuel (S (List.length prg)) st prg.

(* ================================================================================================ *)
(* replace_inside_agg / replace_single_rule_for_agg / inline_in_agg                                  *)
(* ================================================================================================ *)
Definition replace_inside_agg (stm orig: stmt) : result stmt :=
  match orig with
  | SRule ln h body =>
      rbind (init_vars orig) (fun av0 =>
      rbind (fold_left (fun (acc: result (list bodyelem * list string)) (blit: bodyelem) =>
                          rbind acc (fun st =>
                          match blit with
                          | BLit (Lit s (ABodyAgg lg f es rg)) =>
                              rbind (inline_body_aggregate stm (ABodyAgg lg f es rg) (snd st)) (fun r =>
                              Ok (fst st ++ [BLit (Lit s (fst r))], snd r))
                          | _ => Ok (fst st ++ [blit], snd st)
                          end))
                       body (Ok ([], av0)))
            (fun r => Ok (SRule ln h (fst r))))
  | _ => Ok orig
  end.

Definition replace_single_rule_for_agg (st: istate) (prg: list stmt) : result (list stmt) :=
  let rd := rd_init prg in
  (fix go (l: list stmt) : result (list stmt) :=
     match l with
     | [] => Ok prg
     | stm :: r =>
         match is_single st rd stm, stmt_hpred stm with
         | Some _, Some hpred =>
             match fst (rd_get_statements_that_use rd hpred) with
             | orig :: _ =>
                 rbind (replace_inside_agg stm orig) (fun replace =>
                 if stmt_eqb orig replace then go r else
                 Ok (flat_map (fun x => if stmt_eqb x stm then []
                                        else if stmt_eqb x orig then [replace] else [x]) prg))
             | [] => Raise "IndexError"
             end
         | _, _ => go r
         end
     end) prg.

Fixpoint inline_in_agg_fuel (fuel: nat) (st: istate) (prg: list stmt) : result (list stmt) :=
  match fuel with
  | 0 => OutOfFuel
  | S f =>
      rbind (replace_single_rule_for_agg st prg) (fun new_prg =>
      if list_eqb stmt_eqb new_prg prg then Ok prg else inline_in_agg_fuel f st new_prg)
  end.
Definition inline_in_agg (st: istate) (prg: list stmt) : result (list stmt) :=
  inline_in_agg_fuel (S (List.length prg)) st prg.

(* ================================================================================================ *)
(* execute                                                                                           *)
(* ================================================================================================ *)
Definition execute (st: istate) (prg: list stmt) : result (list stmt) :=
  rbind (inline_in_agg st prg) (fun p1 =>
  rbind (inline_in_rulebody st p1) (fun p2 =>
  inline_in_minimize p2)).

(* X = InlineTranslator(ctor_prg, ins, outs); X.execute(prg) *)
Definition run_execute (ctor_prg: list stmt) (ins outs: list pred) (prg: list stmt) : result (list stmt) :=
  rbind (it_init ctor_prg ins outs) (fun st => execute st prg).

(* ================================================================================================ *)
(* entry points and comparison helpers for vlib/fam_inline.py                                        *)
(* ================================================================================================ *)
Definition with_state {A} (prg: list stmt) (ins outs: list pred) (f: istate -> result A) : result A :=
  rbind (it_init prg ins outs) f.

Definition singles (prg: list stmt) (ins outs: list pred) : result (list (option nat)) :=
  with_state prg ins outs (fun st => let rd := rd_init prg in Ok (map (is_single st rd) prg)).

(* the nodes of g with the answer of is_connected_to_agregates for each *)
Definition graph_report (prg: list stmt) (ins outs: list pred) : result (list (gkey * gval * result bool)) :=
  with_state prg ins outs (fun st =>
  rbind (build_graph st prg) (fun g =>
  Ok (map (fun n : gkey * gval =>
             (n, match snd (fst n) with
                 | Lit _ (ASym (TFun _ args _)) =>
                     match nth_error args (snd (snd n)) with
                     | Some var => is_connected_to_agregates var (fst (fst n)) g
                     | None => Raise "IndexError"
                     end
                 | _ => Raise "AttributeError"
                 end)) g))).

Definition chk_terms_list (model obs: list (list term)) : bool := list_eqb (list_eqb term_eqb) model obs.
Definition info_eqb (a b: nat * bool * nat) : bool :=
  andb (Nat.eqb (fst (fst a)) (fst (fst b))) (andb (Bool.eqb (snd (fst a)) (snd (fst b))) (Nat.eqb (snd a) (snd b))).
Definition chk_info (model obs: nat * bool * nat) : bool := info_eqb model obs.
Definition chk_analytics (model obs: list string * list guard) : bool :=
  andb (list_eqb String.eqb (fst model) (fst obs)) (list_eqb guard_eqb (snd model) (snd obs)).

Definition strs_eqb := list_eqb String.eqb.
Definition chk_transform (model obs: result ((list term * list bodyelem * list lit) * list string)) : bool :=
  chk_result (fun a b =>
                andb (list_eqb term_eqb (fst (fst (fst a))) (fst (fst (fst b))))
                  (andb (list_eqb bodyelem_eqb (snd (fst (fst a))) (snd (fst (fst b))))
                    (andb (list_eqb lit_eqb (snd (fst a)) (snd (fst b))) (strs_eqb (snd a) (snd b)))))
             model obs.
Definition chk_singles (model obs: result (list (option nat))) : bool :=
  chk_result (list_eqb (option_eqb Nat.eqb)) model obs.
Definition chk_olit (model obs: result (option lit)) : bool := chk_result (option_eqb lit_eqb) model obs.
Definition chk_body_av (model obs: result (list bodyelem * list string)) : bool :=
  chk_result (fun a b => andb (list_eqb bodyelem_eqb (fst a) (fst b)) (strs_eqb (snd a) (snd b))) model obs.
Definition chk_atom_av (model obs: result (atom * list string)) : bool :=
  chk_result (fun a b => andb (atom_eqb (fst a) (fst b)) (strs_eqb (snd a) (snd b))) model obs.
Definition chk_belems_av (model obs: result (list belem * list string)) : bool :=
  chk_result (fun a b => andb (list_eqb belem_eqb (fst a) (fst b)) (strs_eqb (snd a) (snd b))) model obs.
Definition chk_stmt (model obs: result stmt) : bool := chk_result stmt_eqb model obs.
Definition chk_rbool (model obs: result bool) : bool := chk_result Bool.eqb model obs.
Definition report_eqb (a b: gkey * gval * result bool) : bool :=
  andb (gkey_eqb (fst (fst a)) (fst (fst b)))
    (andb (andb (stmt_eqb (fst (snd (fst a))) (fst (snd (fst b)))) (Nat.eqb (snd (snd (fst a))) (snd (snd (fst b)))))
          (chk_rbool (snd a) (snd b))).
Definition chk_graph_report (model obs: result (list (gkey * gval * result bool))) : bool :=
  chk_result (list_eqb report_eqb) model obs.
