(* Executable model of the variable-binding analysis of ngo/utils/ast.py:403-682
   (conditions_of_body_agg ... global_vars_inside_head) and of the generic helper collect_ast.
   No proofs here.

   Conventions
   * A Python `set[AST]` of Variable nodes is a duplicate-free `list string` of variable *names*
     (clingo's == / hash ignore locations); insertion order is kept but is not observable: the
     correspondence check compares modulo order (`vset_eqb`).
   * Python aliasing: `_collect_binding_information_from_equal` and
     `_collect_binding_information_from_comparisons` do `bound_variables = input_bound_variables`
     (no copy) and `.update()` it, i.e. they mutate the caller's set. In this model the first
     component of their result *is* the caller's set after the call (see `*_input_after`);
     all callers in ast.py do `x.update(returned_bound)` right after the call, which makes the
     aliasing unobservable from `collect_binding_information_body/head`.
   * `while` loops are recursion on fuel; fuel exhaustion is `OutOfFuel` (never reached with the
     fuel computed by the wrappers: every non-final iteration adds at least one variable).
   * The mirror keeps theory atoms opaque (`ATheory text`). The analysis ignores a theory atom that
     is the atom of a top-level body literal or the head itself, so those are inside the fragment;
     a theory atom in any other position is `OutOfFragment` (cannot come from the parser anyway). *)
From Coq Require Import List String ZArith Bool.
From NGO Require Import Syntax.Ast Model.Corr.
Import ListNotations.
Open Scope string_scope. Open Scope list_scope.

(* ---------- sets of variable names ---------- *)
Definition vset := list string.
Definition smem (x: string) (s: vset) : bool := existsb (String.eqb x) s.
Definition sadd (x: string) (s: vset) : vset := if smem x s then s else s ++ [x].
(* s.update(xs) *)
Definition supdate (s: vset) (xs: list string) : vset := fold_left (fun acc x => sadd x acc) xs s.
(* set(xs) *)
Definition sof (xs: list string) : vset := supdate [] xs.
(* a - b *)
Definition sdiff (a b: vset) : vset := filter (fun x => negb (smem x b)) a.
(* a <= b *)
Definition ssubset (a b: vset) : bool := forallb (fun x => smem x b) a.
(* a == b *)
Definition sseteq (a b: vset) : bool := andb (ssubset a b) (ssubset b a).
Definition slen (s: vset) : Z := Z.of_nat (List.length s).
(* set(filter(lambda var: var.name != "_", s)) *)
Definition drop_anonymous (s: vset) : vset := filter (fun x => negb (String.eqb x "_")) s.

(* ---------- collect_ast ----------
   GeneralVisitor.visitnode appends the node and returns it *without* visiting its children, so
   collect_ast returns the *outermost* nodes of the requested kind only: for ((X+1)*2) the only
   BinaryOperation collected is the multiplication, for -|X| the only UnaryOperation is the minus.
   Nodes of other kinds are descended into (attributes in declaration order). *)
Definition is_binop (t: term) : bool := match t with TBin _ _ _ => true | _ => false end.
Definition is_unop (t: term) : bool := match t with TUn _ _ => true | _ => false end.
Definition is_interval (t: term) : bool := match t with TInterval _ _ => true | _ => false end.

Fixpoint collect_term (p: term -> bool) (t: term) : list term :=
  if p t then [t] else
  match t with
  | TVar _ => []
  | TSym _ => []
  | TUn _ a => collect_term p a
  | TBin _ l r => collect_term p l ++ collect_term p r
  | TInterval l r => collect_term p l ++ collect_term p r
  | TFun _ args _ => flat_map (collect_term p) args
  | TPool alts => flat_map (collect_term p) alts
  end.
Definition collect_guard (p: term -> bool) (g: guard) := collect_term p (snd g).
Definition collect_oguard (p: term -> bool) (g: option guard) :=
  match g with Some g => collect_guard p g | None => [] end.

Fixpoint collect_atom (p: term -> bool) (a: atom) : list term :=
  match a with
  | ASym t => collect_term p t
  | ACmp t gs => collect_term p t ++ flat_map (collect_guard p) gs
  | ABool _ => []
  | ABodyAgg lg _ es rg =>
      collect_oguard p lg
      ++ flat_map (fun e => flat_map (collect_term p) (fst e) ++ flat_map (collect_lit p) (snd e)) es
      ++ collect_oguard p rg
  | AAgg lg es rg =>
      collect_oguard p lg
      ++ flat_map (fun e => collect_lit p (fst e) ++ flat_map (collect_lit p) (snd e)) es
      ++ collect_oguard p rg
  | ATheory _ => []   (* opaque; every user below guards with lit_has_theory *)
  end
with collect_lit (p: term -> bool) (l: lit) : list term := match l with Lit _ a => collect_atom p a end.

(* collect_ast(x, "Variable") is Ast.vars_term / vars_lit / vars_atom / vars_guard (names, with duplicates) *)

Fixpoint atom_has_theory (a: atom) : bool :=
  match a with
  | ATheory _ => true
  | ABodyAgg _ _ es _ => existsb (fun e => existsb lit_has_theory (snd e)) es
  | AAgg _ es _ => existsb (fun e => orb (lit_has_theory (fst e)) (existsb lit_has_theory (snd e))) es
  | _ => false
  end
with lit_has_theory (l: lit) : bool := match l with Lit _ a => atom_has_theory a end.

(* ---------- conditions_of_body_agg ---------- *)
Definition conditions_of_body_agg (agg: atom) : list lit :=
  match agg with
  | ABodyAgg _ _ es _ => flat_map (fun e => snd e) es
  | AAgg _ es _ => flat_map (fun e => snd e) es
  | _ => []
  end.

(* ---------- has_interval / has_unsafe_operation ---------- *)
Definition invalid_binop (o: binop) : bool :=
  match o with BXor | BPow | BMod | BDiv | BMul => true | _ => false end.
Definition is_abs_node (t: term) : bool := match t with TUn UAbs _ => true | _ => false end.
Definition is_invalid_binop_node (t: term) : bool := match t with TBin o _ _ => invalid_binop o | _ => false end.
Definition nonempty {A} (l: list A) : bool := match l with [] => false | _ => true end.

Definition unsafe_of (col: (term -> bool) -> list term) : bool :=
  if nonempty (col is_interval) then true
  else if existsb is_abs_node (col is_unop) then true
  else existsb is_invalid_binop_node (col is_binop).

Definition has_interval (t: term) : bool := nonempty (collect_term is_interval t).
Definition has_unsafe_operation (t: term) : bool := unsafe_of (fun p => collect_term p t).

(* the same two functions applied to a Literal node *)
Definition has_interval_lit (l: lit) : result bool :=
  if lit_has_theory l then OutOfFragment else Ok (nonempty (collect_lit is_interval l)).
Definition has_unsafe_operation_lit (l: lit) : result bool :=
  if lit_has_theory l then OutOfFragment else Ok (unsafe_of (fun p => collect_lit p l)).

(* ---------- _collect_binding_information_from_equal ----------
   returns (bound_variables, unbound_variables - bound_variables); bound_variables is the
   (mutated) input set itself *)
Definition tuple_like (name: string) (args: list term) : bool := andb (String.eqb name "") (nonempty args).

Definition from_equal_base (lhs rhs: term) (bound: vset) : vset :=
  let lhs_vars := sof (vars_term lhs) in
  let rhs_vars := sof (vars_term rhs) in
  let bound1 :=
    if andb (Nat.eqb (List.length lhs_vars) 1) (andb (negb (has_unsafe_operation lhs)) (ssubset rhs_vars bound))
    then supdate bound lhs_vars else bound in
  if andb (Nat.eqb (List.length rhs_vars) 1) (andb (negb (has_unsafe_operation rhs)) (ssubset lhs_vars bound1))
  then supdate bound1 rhs_vars else bound1.

Fixpoint from_equal (lhs rhs: term) (input_bound: vset) {struct lhs} : vset * vset :=
  let unbound0 := supdate (sof (vars_term lhs)) (sof (vars_term rhs)) in
  let base := fun _ : unit =>
    let b := from_equal_base lhs rhs input_bound in (b, sdiff unbound0 b) in
  match lhs with
  | TFun ln largs _ =>
    match rhs with
    | TFun rn rargs _ =>
      if andb (tuple_like ln largs) (andb (tuple_like rn rargs) (Nat.eqb (List.length largs) (List.length rargs)))
      then
        let '(b, u) :=
          (fix zip_loop (ls rs: list term) (b u: vset) {struct ls} : vset * vset :=
             match ls, rs with
             | l :: ls', r :: rs' =>
                 let '(bound, unbound) := from_equal l r b in
                 (* bound is b itself (aliasing): b.update(bound) changes nothing *)
                 zip_loop ls' rs' (supdate bound bound) (supdate u unbound)
             | _, _ => (b, u)
             end) largs rargs input_bound unbound0 in
        (b, sdiff u b)
      else base tt
    | _ => base tt
    end
  | _ => base tt
  end.
(* what the caller's set contains after the call *)
Definition from_equal_input_after (lhs rhs: term) (input_bound: vset) : vset := fst (from_equal lhs rhs input_bound).

(* ---------- comparison2comparisonlist ---------- *)
Fixpoint c2cl (lhs: term) (gs: list guard) : list (term * cmp * term) :=
  match gs with
  | [] => []
  | (op, rhs) :: r => (lhs, op, rhs) :: c2cl rhs r
  end.
Definition comparison2comparisonlist (a: atom) : result (list (term * cmp * term)) :=
  match a with ACmp t gs => Ok (c2cl t gs) | _ => Raise "AssertionError" end.

(* ---------- _collect_binding_information_from_comparison ---------- *)
Definition from_comparison_cmp (s: sign) (t: term) (gs: list guard) (input_bound: vset) : vset * vset :=
  match s with
  | NoSign =>
      let '(b, u) :=
        fold_left (fun (acc: vset * vset) (c: term * cmp * term) =>
                     let '(b, u) := acc in
                     let '(lhs, op, rhs) := c in
                     if cmp_eqb op CEq
                     then let '(bound, unbound) := from_equal lhs rhs b in (supdate bound bound, supdate u unbound)
                     else (b, u))
                  (c2cl t gs) (input_bound (* a copy *), sof (vars_atom (ACmp t gs))) in
      (b, sdiff u b)
  | _ => ([], sof (vars_atom (ACmp t gs)))
  end.
Definition from_comparison (l: lit) (input_bound: vset) : result (vset * vset) :=
  match l with
  | Lit s (ACmp t gs) => Ok (from_comparison_cmp s t gs input_bound)
  | _ => Raise "AssertionError"
  end.

(* ---------- _collect_binding_information_simple_literal ---------- *)
Definition simple_literal (l: lit) (in_bound in_unbound: vset) : vset * vset :=
  match l with
  | Lit s (ASym symbol) =>
      match s, symbol with
      | NoSign, TFun _ args _ =>
          fold_left (fun (acc: vset * vset) (arg: term) =>
                       let '(b, u) := acc in
                       let variables := vars_term arg in   (* a list: X+X has two variables *)
                       if orb (andb (Nat.eqb (List.length variables) 1) (negb (has_unsafe_operation arg)))
                              (Nat.eqb (List.length (collect_term is_binop arg) + List.length (collect_term is_unop arg)) 0)
                       then (supdate b variables, u)
                       else (b, supdate u variables))
                    args (in_bound, in_unbound)
      | _, _ => (in_bound, supdate in_unbound (vars_lit l))
      end
  | Lit s (ACmp t gs) =>
      let '(bound, unbound) := from_comparison_cmp s t gs in_bound in
      (supdate in_bound bound, supdate in_unbound unbound)
  | _ => (in_bound, in_unbound)
  end.

(* ---------- _collect_binding_information_conditions ---------- *)
Definition conditions_pass (conditions: list lit) (b u: vset) : vset * vset :=
  fold_left (fun (acc: vset * vset) (c: lit) =>
               let '(b, u) := acc in
               let '(bound, unbound) := simple_literal c b u in
               (supdate b bound, supdate u unbound))
            conditions (b, u).
(* while len(bound_variables) != size *)
Fixpoint conditions_loop (fuel: nat) (conditions: list lit) (b u: vset) (size: Z) : result (vset * vset) :=
  if Z.eqb (slen b) size then Ok (b, u) else
  match fuel with
  | 0 => OutOfFuel
  | S fuel' =>
      let '(b', u') := conditions_pass conditions b u in
      conditions_loop fuel' conditions b' u' (slen b)
  end.
Definition collect_binding_information_conditions (conditions: list lit) (already_bound: vset)
  : result (vset * vset) :=
  if existsb lit_has_theory conditions then OutOfFragment else
  rbind (conditions_loop (List.length (flat_map vars_lit conditions) + 2) conditions already_bound [] (-1)%Z)
        (fun '(b, u) => Ok (b, sdiff u b)).

(* ---------- _collect_binding_information_from_comparisons ---------- *)
Definition comparisons_pass (stmlist: list bodyelem) (b u: vset) : vset * vset :=
  fold_left (fun (acc: vset * vset) (stm: bodyelem) =>
               let '(b, u) := acc in
               match stm with
               | BLit (Lit s (ACmp t gs)) =>
                   let '(bound, unbound) := from_comparison_cmp s t gs b in
                   (supdate b bound, supdate u unbound)
               | _ => (b, u)
               end)
            stmlist (b, u).
(* while True: ... if orig == bound_variables: break *)
Fixpoint comparisons_loop (fuel: nat) (stmlist: list bodyelem) (b u: vset) : result (vset * vset) :=
  match fuel with
  | 0 => OutOfFuel
  | S fuel' =>
      let '(b', u') := comparisons_pass stmlist b u in
      if sseteq b b' then Ok (b', u') else comparisons_loop fuel' stmlist b' u'
  end.
Definition collect_binding_information_from_comparisons (stmlist: list bodyelem) (input_bound: vset)
  : result (vset * vset) :=
  comparisons_loop (List.length (flat_map vars_bodyelem stmlist) + 2) stmlist input_bound [].
Definition from_comparisons_input_after (stmlist: list bodyelem) (input_bound: vset) : result vset :=
  rbind (collect_binding_information_from_comparisons stmlist input_bound) (fun r => Ok (fst r)).

(* ---------- collect_binding_information_body ---------- *)
Definition guard_binding (s: sign) (g: option guard) (bu: vset * vset) : vset * vset :=
  let '(b, u) := bu in
  match g with
  | None => (b, u)
  | Some (c, t) =>
      if andb (sign_eqb s NoSign) (cmp_eqb c CEq) then (supdate b (vars_term t), u) else (b, supdate u (vars_term t))
  end.

(* one `for stm in stmlist` step; state = (bound_variables, unbound_variables) *)
Definition body_stm (stm: bodyelem) (bu: vset * vset) : result (vset * vset) :=
  let '(bv, uv) := bu in
  match stm with
  | BLit l =>
      let '(bound, unbound) := simple_literal l bv uv in
      let bv := supdate bv bound in
      let uv := supdate uv unbound in
      match l with
      | Lit s (ABodyAgg lg _ es rg) =>
          let '(bv, uv) := guard_binding s rg (guard_binding s lg (bv, uv)) in
          rbind (fold_left (fun (acc: result vset) (element: list term * list lit) =>
                       rbind acc (fun uv =>
                       let term_vars := sof (flat_map vars_term (fst element)) in
                       rbind (collect_binding_information_conditions (snd element) bv) (fun '(bound, unbound) =>
                       let term_vars := sdiff (sdiff term_vars bound) bv in
                       let uv := supdate uv term_vars in
                       let unbound := sdiff unbound bv in
                       Ok (supdate uv unbound))))
                    es (Ok uv))
                (fun uv => Ok (bv, uv))
      | Lit s (AAgg lg es rg) =>
          let '(bv, uv) := guard_binding s rg (guard_binding s lg (bv, uv)) in
          (* assert stm.atom.ast_type != ASTType.Aggregate inside the element loop *)
          if existsb (fun e => orb (lit_has_theory (fst e)) (existsb lit_has_theory (snd e))) es then OutOfFragment
          else if nonempty es then Raise "AssertionError" else Ok (bv, uv)
      | _ => Ok (bv, uv)
      end
  | BCond l c =>
      if lit_has_theory l then OutOfFragment else
      let term_vars := sof (vars_lit l) in
      rbind (collect_binding_information_conditions c bv) (fun '(bound, unbound) =>
      let uv := supdate uv unbound in
      Ok (bv, supdate uv (sdiff term_vars bound)))
  end.

Definition body_pass (stmlist: list bodyelem) (bv uv: vset) : result (vset * vset) :=
  rbind (fold_left (fun (acc: result (vset * vset)) stm => rbind acc (body_stm stm)) stmlist (Ok (bv, uv)))
        (fun '(bv, uv) =>
  let uv := sdiff uv bv in
  rbind (collect_binding_information_from_comparisons stmlist bv) (fun '(bound, unbound) =>
  let bv := supdate bound (* bv was mutated in place: it is `bound` *) bound in
  let uv := supdate uv unbound in
  let uv := sdiff uv bv in
  Ok (bv, uv))).

(* while len(bound_variables) > size_before: ...; size_before = len(bound_variables)
   (as written the body runs exactly once: the condition is re-tested right after the assignment) *)
Fixpoint body_loop (fuel: nat) (stmlist: list bodyelem) (bv uv: vset) (size_before: Z) : result (vset * vset) :=
  if Z.gtb (slen bv) size_before then
    match fuel with
    | 0 => OutOfFuel
    | S fuel' =>
        rbind (body_pass stmlist bv uv) (fun '(bv', uv') => body_loop fuel' stmlist bv' uv' (slen bv'))
    end
  else Ok (bv, uv).

Definition collect_binding_information_body (stmlist: list bodyelem) (prebound: option vset) : result (vset * vset) :=
  let bv := match prebound with Some p => supdate [] p | None => [] end in
  rbind (body_loop (List.length (flat_map vars_bodyelem stmlist) + 2) stmlist bv [] (-1)%Z)
        (fun '(bv, uv) => Ok (drop_anonymous bv, drop_anonymous uv)).

Definition collect_bound_variables (stmlist: list bodyelem) : result vset :=
  rbind (collect_binding_information_body stmlist None) (fun r => Ok (fst r)).

(* ---------- collect_binding_information_head ---------- *)
Definition condlit_has_theory (c: condlit) : bool := orb (lit_has_theory (fst c)) (existsb lit_has_theory (snd c)).

Definition collect_binding_information_head (h: head) (body: list bodyelem) : result (vset * vset) :=
  rbind (collect_binding_information_body body None) (fun r =>
  let bound_in_body := fst r in
  let finish := fun (need no_bound: vset) =>
    let need := drop_anonymous need in
    let no_bound := drop_anonymous no_bound in
    Ok (sdiff need bound_in_body, supdate no_bound bound_in_body) in
  match h with
  | HLit l => if lit_has_theory l then OutOfFragment else finish (supdate [] (vars_lit l)) []
  | HHeadAgg lg _ es rg =>
      if existsb (fun e => condlit_has_theory (snd e)) es then OutOfFragment else
      let need := supdate (supdate [] (vars_oguard lg)) (vars_oguard rg) in
      rbind (fold_left (fun (acc: result (vset * vset)) (element: helem) =>
                          rbind acc (fun '(need, no_bound) =>
                          let term_vars := sof (flat_map vars_term (fst element)) in
                          let term_vars := supdate term_vars (vars_lit (fst (snd element))) in
                          rbind (collect_binding_information_conditions (snd (snd element)) bound_in_body)
                                (fun '(bound, unbound) =>
                          let term_vars := sdiff term_vars bound in
                          let need := supdate (supdate need term_vars) unbound in
                          Ok (need, supdate no_bound bound))))
                       es (Ok (need, [])))
            (fun '(need, no_bound) => finish need no_bound)
  | HAgg lg es rg =>
      if existsb condlit_has_theory es then OutOfFragment else
      let need := supdate (supdate [] (vars_oguard lg)) (vars_oguard rg) in
      rbind (fold_left (fun (acc: result (vset * vset)) (element: condlit) =>
                          rbind acc (fun '(need, no_bound) =>
                          rbind (collect_binding_information_conditions (snd element) bound_in_body)
                                (fun '(bound, unbound) =>
                          let need_bound_l := sof (vars_lit (fst element)) in
                          let need := supdate (supdate need (sdiff need_bound_l bound)) unbound in
                          Ok (need, supdate no_bound bound))))
                       es (Ok (need, [])))
            (fun '(need, no_bound) => finish need no_bound)
  | HDisj es =>
      if existsb condlit_has_theory es then OutOfFragment else
      rbind (fold_left (fun (acc: result (vset * vset)) (element: condlit) =>
                          rbind acc (fun '(need, no_bound) =>
                          rbind (collect_binding_information_conditions (snd element) bound_in_body)
                                (fun '(bound, unbound) =>   (* unbound is dropped for disjunctions *)
                          let need_bound_l := sof (vars_lit (fst element)) in
                          Ok (supdate need (sdiff need_bound_l bound), supdate no_bound bound))))
                       es (Ok ([], [])))
            (fun '(need, no_bound) => finish need no_bound)
  | HTheory _ => finish [] []
  end).

(* ---------- global_vars_inside_body / global_vars_inside_head ---------- *)
Definition global_vars_inside_body (lits: list bodyelem) : result vset :=
  rbind (collect_binding_information_body lits None) (fun '(b, u) => Ok (supdate b u)).
Definition global_vars_inside_head (h: head) : result vset :=
  rbind (collect_binding_information_head h []) (fun '(b, u) => Ok (supdate b u)).

(* ---------- comparison helpers for the correspondence shards (strict: OutOfFragment = mismatch;
   the families skip the out-of-fragment inputs themselves and count them) ---------- *)
Definition vset_eqb (a b: vset) : bool :=
  andb (Nat.eqb (List.length a) (List.length b)) (sseteq a b).
Definition chk_binding (model obs: result (vset * vset)) : bool := result_eqb (pair_eqb vset_eqb vset_eqb) model obs.
Definition chk_vset (model obs: result vset) : bool := result_eqb vset_eqb model obs.
Definition chk_bool (model obs: result bool) : bool := result_eqb Bool.eqb model obs.
Definition chk_lits (model obs: list lit) : bool := list_eqb lit_eqb model obs.
Definition triple_eqb (a b: term * cmp * term) : bool :=
  andb (term_eqb (fst (fst a)) (fst (fst b))) (andb (cmp_eqb (snd (fst a)) (snd (fst b))) (term_eqb (snd a) (snd b))).
Definition chk_cmplist (model obs: result (list (term * cmp * term))) : bool :=
  result_eqb (list_eqb triple_eqb) model obs.
(* result pair plus the caller's (possibly mutated) input set after the call *)
Definition chk_binding_after (model: result (vset * vset)) (after: result vset) (obs: result (vset * vset)) (obs_after: vset) : bool :=
  andb (chk_binding model obs)
       (match after with Ok a => vset_eqb a obs_after | Raise _ => true | _ => false end).
