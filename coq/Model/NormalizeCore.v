(* Small pure pieces of ngo/normalize.py shared by the Normalize model and by the semantic link proofs. *)
From Coq Require Import List String ZArith Bool.
From NGO Require Import Syntax.Ast Gen.Tables.
Import ListNotations.
Open Scope list_scope.

(* utils/ast.py comparison2comparisonlist: t0 o1 t1 o2 t2 ... -> [(t0,o1,t1); (t1,o2,t2); ...] *)
Fixpoint comparison2comparisonlist (lhs: term) (gs: list guard) : list (term * cmp * term) :=
  match gs with
  | [] => []
  | (o, rhs) :: gs' => (lhs, o, rhs) :: comparison2comparisonlist rhs gs'
  end.

(* normalize.py:76-83 / 52-58: a comparison literal becomes one literal per link, each with the sign of
   the original literal *)
Definition split_cmp_lit (sg: sign) (t: term) (gs: list guard) : list lit :=
  map (fun x => match x with (l, o, r) => Lit sg (ACmp l [(o, r)]) end) (comparison2comparisonlist t gs).

Definition normalize_operators_condition (cs: list lit) : list lit :=
  flat_map (fun c => match c with Lit sg (ACmp t gs) => split_cmp_lit sg t gs | _ => [c] end) cs.

(* normalize.py:166-193 remove_unecessary_bounds.replace on the two guards of a body aggregate *)
Definition is_sym (t: term) (s: sym) := match t with TSym s' => sym_eqb s s' | _ => false end.
Definition drop_left_guard (g: option guard) : option guard :=
  match g with
  | Some (o, TSym s) =>
      if (cmp_eqb o CLe && sym_eqb s SInf) || (cmp_eqb o CGe && sym_eqb s SSup) then None else g
  | _ => g
  end.
Definition drop_right_guard (g: option guard) : option guard :=
  match g with
  | Some (o, TSym s) =>
      if (cmp_eqb o CLe && sym_eqb s SSup) || (cmp_eqb o CGe && sym_eqb s SInf) then None else g
  | _ => g
  end.
Definition normalize_guards (lg rg: option guard) : option guard * option guard :=
  let lg := drop_left_guard lg in
  let rg := drop_right_guard rg in
  match lg, rg with
  | None, Some (o, t) => (Some (rhs2lhs_comparison o, t), None)
  | _, _ => (lg, rg)
  end.

(* normalize.py:94-101 _convert_count_to_sum *)
Definition convert_count_elems (es: list belem) : list belem :=
  map (fun e => (TSym (SNum 1) :: fst e, snd e)) es.
