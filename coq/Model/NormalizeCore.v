(* Small pure pieces of ngo/normalize.py shared by the Normalize model and by the semantic link proofs. *)
From Coq Require Import List String ZArith Bool.
From NGO Require Import Syntax.Ast.
From NGO Require Export Gen.Tables.
Import ListNotations.
Open Scope list_scope.

(* utils/ast.py comparison2comparisonlist: t0 o1 t1 o2 t2 ... -> [(t0,o1,t1); (t1,o2,t2); ...] *)
Fixpoint comparison2comparisonlist (lhs: term) (gs: list guard) : list (term * cmp * term) :=
  match gs with
  | [] => []
  | (o, rhs) :: gs' => (lhs, o, rhs) :: comparison2comparisonlist rhs gs'
  end.

(* normalize.py:76-83 / 52-58: a comparison literal becomes one literal per link, each with the sign of
   the original literal *)
Definition split_cmp_lit (sg: sign) (t: term) (gs: list guard) : list lit :=
  map (fun x => match x with (l, o, r) => Lit sg (ACmp l [(o, r)]) end) (comparison2comparisonlist t gs).

Definition normalize_operators_condition (cs: list lit) : list lit :=
  flat_map (fun c => match c with Lit sg (ACmp t gs) => split_cmp_lit sg t gs | _ => [c] end) cs.

(* normalize.py:166-193 remove_unecessary_bounds.replace: drop_left_guard, drop_right_guard and normalize_guards are
   *generated from the source* (Gen/Tables.v) and re-exported here *)

(* normalize.py:94-101 _convert_count_to_sum *)
Definition convert_count_elems (es: list belem) : list belem :=
  map (fun e => (TSym (SNum 1) :: fst e, snd e)) es.
