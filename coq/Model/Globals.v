(* Model of the two naming classes of ngo/utils/globals.py:81-133
     UniqueVariables (__init__, make_unique)   and   UniqueNames (__init__, new_auxpredicate, new_predicate).
   The object state is explicit: every method takes the state and returns the new one.
   Python `while` loops are recursion on fuel; the fuel counts executions of the loop *body*
   (the loop condition is tested before the fuel is inspected), so that
   `S (length <known names>)` is always enough (proved in Link/GlobalsSpec.v).
   The name constants come from the generated Gen/Names.v.  No proofs here. *)
From Coq Require Import List String Ascii ZArith Bool Arith.
From NGO Require Import Syntax.Ast Gen.Names Model.Traverse.
Import ListNotations.
Open Scope string_scope. Open Scope list_scope.

(* ---------- Python's str(int) for non-negative integers ---------- *)
Definition digit_char (d: nat) : ascii :=
  match d with
  | 0 => "0" | 1 => "1" | 2 => "2" | 3 => "3" | 4 => "4"
  | 5 => "5" | 6 => "6" | 7 => "7" | 8 => "8" | _ => "9"
  end%char.

(* prepends the decimal digits of n to acc; fuel > n is enough *)
Fixpoint string_of_nat_aux (fuel n: nat) (acc: string) : string :=
  match fuel with
  | 0 => acc
  | S f =>
      let acc' := String (digit_char (n mod 10)) acc in
      if Nat.eqb (n / 10) 0 then acc' else string_of_nat_aux f (n / 10) acc'
  end.
Definition string_of_nat (n: nat) : string := string_of_nat_aux (S n) n "".

(* ---------- UniqueVariables ---------- *)
(* `x in list_of_Variable_nodes`: clingo's == on Variable nodes compares the name only *)
Definition smem (x: string) (l: list string) : bool := existsb (String.eqb x) l.

(* statements whose Variable nodes are not all visible in the mirror: theory atoms keep their
   terms as opaque text, SOther statements (#external, #edge, #heuristic, ...) are opaque *)
Fixpoint theory_atom (a: atom) : bool :=
  match a with
  | ATheory _ => true
  | ABodyAgg _ _ es _ => existsb (fun e => existsb theory_lit (snd e)) es
  | AAgg _ es _ => existsb (fun e => orb (theory_lit (fst e)) (existsb theory_lit (snd e))) es
  | _ => false
  end
with theory_lit (l: lit) : bool := match l with Lit _ a => theory_atom a end.
Definition theory_condlit (c: condlit) := orb (theory_lit (fst c)) (existsb theory_lit (snd c)).
Definition theory_bodyelem (b: bodyelem) :=
  match b with BLit l => theory_lit l | BCond l c => theory_condlit (l, c) end.
Definition theory_head (h: head) : bool :=
  match h with
  | HLit l => theory_lit l
  | HDisj es => existsb theory_condlit es
  | HAgg _ es _ => existsb theory_condlit es
  | HHeadAgg _ _ es _ => existsb (fun e => theory_condlit (snd e)) es
  | HTheory _ => true
  end.
Definition opaque_vars (s: stmt) : bool :=
  match s with
  | SRule _ h b => orb (theory_head h) (existsb theory_bodyelem b)
  | SMin _ _ _ _ b => existsb theory_bodyelem b
  | SShowSig _ _ _ => false
  | SShowTerm _ b => existsb theory_bodyelem b
  | SOther _ _ => true
  end.

(* UniqueVariables.__init__: self._allvars = collect_ast(rule, "Variable")
   = the names of all Variable nodes in visiting order, duplicates included *)
Definition init_vars (rule: stmt) : result (list string) :=
  if opaque_vars rule then OutOfFragment else Ok (vars_stmt rule).

(* the `while True` loop of make_unique, entered with count *)
Fixpoint make_unique_loop (fuel: nat) (allvars: list string) (var: string) (count: nat)
  : result (string * list string) :=
  match fuel with
  | 0 => OutOfFuel
  | S f =>
      let newvar := (var ++ string_of_nat count)%string in
      if negb (smem newvar allvars) then Ok (newvar, allvars ++ [newvar])
      else make_unique_loop f allvars var (S count)
  end.

(* make_unique: returns (returned name, new self._allvars) *)
Definition make_unique (allvars: list string) (var: string) : result (string * list string) :=
  if String.eqb var "_" then Ok (var, allvars)
  else if negb (smem var allvars) then Ok (var, allvars ++ [var])
  else make_unique_loop (S (List.length allvars)) allvars var 0.

(* a history of make_unique calls on one object: (final _allvars, returned names) *)
Fixpoint run_make_unique (allvars: list string) (vs: list string) : result (list string * list string) :=
  match vs with
  | [] => Ok (allvars, [])
  | v :: vs' =>
      rbind (make_unique allvars v) (fun r =>
      rbind (run_make_unique (snd r) vs') (fun r' => Ok (fst r', fst r :: snd r')))
  end.

(* ---------- UniqueNames ---------- *)
(* self.predicates is a Python set: only membership is ever observed, so a duplicate-free list *)
Record unames := mk_unames { auxcounter: nat; known: list pred }.

(* UniqueNames.__init__ ; predicates(stm) is called with its default signs SIGNS.
   Note that the *output* predicates are not a parameter. *)
Definition init_names (prg: list stmt) (input_predicates: list pred) : unames :=
  mk_unames 0
    (fold_left (fun acc s => padd_all (map snd (predicates all_signs s)) acc) prg
               (padd_all input_predicates [])).

(* the while loop of new_auxpredicate, entered with the current p and self.auxcounter.
   The body first recomputes p from the counter and only then increments the counter, so the
   first execution of the body rebuilds the very same name. Returns (p, auxcounter). *)
Fixpoint aux_loop (fuel: nat) (preds: list pred) (arity counter: nat) (p: pred) : result (pred * nat) :=
  if pmem p preds then
    match fuel with
    | 0 => OutOfFuel
    | S f => aux_loop f preds arity (S counter) ((AUX_FUNC ++ string_of_nat counter)%string, arity)
    end
  else Ok (p, counter).

Definition new_auxpredicate (st: unames) (arity: nat) : result (pred * unames) :=
  let counter := S (auxcounter st) in
  let p := ((AUX_FUNC ++ string_of_nat counter)%string, arity) in
  rbind (aux_loop (S (List.length (known st))) (known st) arity counter p) (fun r =>
  Ok (fst r, mk_unames (snd r) (padd (fst r) (known st)))).

(* the while loop of new_predicate *)
Fixpoint pred_loop (fuel: nat) (preds: list pred) (similar: string) (arity counter: nat) (p: pred)
  : result pred :=
  if pmem p preds then
    match fuel with
    | 0 => OutOfFuel
    | S f => pred_loop f preds similar arity (S counter) ((similar ++ string_of_nat counter)%string, arity)
    end
  else Ok p.

Definition new_predicate (st: unames) (similar: string) (arity: nat) : result (pred * unames) :=
  rbind (pred_loop (S (List.length (known st))) (known st) similar arity 1 (similar, arity)) (fun p =>
  Ok (p, mk_unames (auxcounter st) (padd p (known st)))).

(* histories of requests against one UniqueNames object *)
Inductive req := NewAux (arity: nat) | NewPred (similar: string) (arity: nat).

Definition run_request (st: unames) (r: req) : result (pred * unames) :=
  match r with
  | NewAux ar => new_auxpredicate st ar
  | NewPred sim ar => new_predicate st sim ar
  end.

(* (final state, returned predicates in call order) *)
Fixpoint run_requests (st: unames) (rs: list req) : result (unames * list pred) :=
  match rs with
  | [] => Ok (st, [])
  | r :: rs' =>
      rbind (run_request st r) (fun x =>
      rbind (run_requests (snd x) rs') (fun y => Ok (fst y, fst x :: snd y)))
  end.

(* ---------- comparison helpers for the correspondence families (vlib/fam_globals.py) ---------- *)
Definition pset_eqb (a b: list pred) : bool :=
  andb (forallb (fun p => pmem p b) a) (forallb (fun p => pmem p a) b).

(* observed: initial _allvars, returned names, final _allvars *)
Definition chk_unique_variables (rule: stmt) (calls: list string)
           (obs_init obs_out obs_final: list string) : bool :=
  match init_vars rule with
  | OutOfFragment => true
  | Ok vars0 =>
      andb (list_eqb String.eqb vars0 obs_init)
        (match run_make_unique vars0 calls with
         | Ok (final, outs) => andb (list_eqb String.eqb outs obs_out) (list_eqb String.eqb final obs_final)
         | _ => false
         end)
  | _ => false
  end.
Definition unique_variables_in_fragment (rule: stmt) : bool := negb (opaque_vars rule).

(* observed: the set after __init__ (any order), returned predicates, final auxcounter, final set (any order) *)
Definition chk_unique_names (prg: list stmt) (ins: list pred) (rs: list req)
           (obs_init: list pred) (obs_out: list pred) (obs_counter: nat) (obs_final: list pred) : bool :=
  let st0 := init_names prg ins in
  andb (andb (Nat.eqb (auxcounter st0) 0) (pset_eqb (known st0) obs_init))
    (match run_requests st0 rs with
     | Ok (st, outs) =>
         andb (list_eqb pred_eqb outs obs_out)
              (andb (Nat.eqb (auxcounter st) obs_counter) (pset_eqb (known st) obs_final))
     | _ => false
     end).
