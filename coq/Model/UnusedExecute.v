(* UnusedTranslator.execute (ngo/unused.py:261-278) with its first line
     new_prg = exline_arithmetic(prg)
   = the model of exline_arithmetic in Model/Normalize.v followed by the loop of Model/Unused.v.
   Kept in a file of its own so that Model/Unused.v does not depend on Model/Normalize.v.
   Correspondence family: unused_execute (vlib/fam_unused.py).  No proofs here. *)
From Coq Require Import List String ZArith Bool Arith.
From NGO Require Import Syntax.Ast Model.Traverse Model.Globals Model.Normalize Model.Unused.
Import ListNotations.

(* the fuel is computed after exline_arithmetic (it adds body literals) *)
Definition execute_st (input_predicates output_predicates: list pred) (st: ustate) (prg: list stmt)
  : result (list stmt * ustate) :=
  rbind (Normalize.exline_arithmetic prg) (fun new_prg =>
  Unused.execute_core_st input_predicates output_predicates st new_prg).

(* UnusedTranslator(ctor_prg, ins, outs).execute(prg) *)
Definition execute (ctor_prg: list stmt) (input_predicates output_predicates: list pred) (prg: list stmt)
  : result (list stmt) :=
  rbind (execute_st input_predicates output_predicates (init_state ctor_prg input_predicates) prg)
        (fun r => Ok (fst r)).
