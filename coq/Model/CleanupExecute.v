(* The full CleanupTranslator.execute (cleanup.py:297-310):
     prg = inline_arithmetic(prg)            -- Model/Normalize.v (ngo/normalize.py:446-454)
     ... the rest                            -- Model/Cleanup.v execute_core
   Kept in its own file so that Model/Cleanup.v does not depend on the (large) Normalize model.
   `inline_arithmetic` answers OutOfFragment when it would have to look into a theory atom and may
   raise AssertionError (global_vars_inside_body on a body with an old-style aggregate); both are
   propagated.  Correspondence family: cleanup_execute (vlib/fam_cleanup.py). *)
From Coq Require Import List String ZArith Bool.
From NGO Require Import Syntax.Ast Model.Cleanup.
From NGO Require Model.Normalize.
Import ListNotations.

(* a fresh CleanupTranslator(input_predicates) *)
Definition execute (input_predicates: list pred) (prg: list stmt) : result (list stmt) :=
  rbind (Normalize.inline_arithmetic prg) (execute_core input_predicates).

(* with the old value of self.superseeds; returns the program and the new self.superseeds *)
Definition execute_state (input_predicates: list pred) (superseeds: list Mapping) (prg: list stmt)
  : result (list stmt * list Mapping) :=
  rbind (Normalize.inline_arithmetic prg) (execute_core_state input_predicates superseeds).

Definition in_fragment {A} (x: result A) : bool := match x with OutOfFragment => false | _ => true end.
(* a model answer OutOfFragment (inherited from inline_arithmetic) is not compared *)
Definition chk_rprog_frag (model obs: result (list stmt)) : bool :=
  match model with OutOfFragment => true | _ => chk_rprog model obs end.
