(* Executable model of ngo/projection.py (ProjectionTranslator: good_split, project_rule, execute)
   and of largest_subset (ngo/utils/ast.py:872).  No proofs here.

   Conventions
   * A Python `set[AST]` of Variable nodes is a duplicate-free list of variable names (Binding.vset);
     only sizes, membership and `sorted(t)` are observed, so the insertion order is irrelevant.
   * The object state of ProjectionTranslator is its UniqueNames object (Globals.unames); every method
     that can change it takes the state and returns the new one.
   * Python exceptions are results: the binding analysis asserts on an old-style body aggregate
     `{ a : b }` with at least one element (Raise "AssertionError").
   * Theory atoms are opaque in the mirror, so the Variable nodes inside them are invisible:
     a rule with a theory atom anywhere in its *body* is OutOfFragment (a theory atom as head is fine,
     the analysis ignores it).
   * `execute_core` is `execute` without its line `prg = inline_arithmetic(prg)`. *)
From Coq Require Import List String ZArith Bool Arith.
From NGO Require Import Syntax.Ast Gen.Names Model.Traverse Model.Corr Model.Binding Model.Globals.
Import ListNotations.
Open Scope string_scope. Open Scope list_scope.

(* ---------- largest_subset ----------
   itertools.combinations(l, r): the r-element subsequences of l in lexicographic order of positions *)
Fixpoint combinations {A} (l: list A) (r: nat) {struct l} : list (list A) :=
  match r, l with
  | 0, _ => [[]]
  | S _, [] => []
  | S r', x :: l' => map (cons x) (combinations l' r') ++ combinations l' r
  end.

(* list(reversed(list(chain.from_iterable(combinations(l, r) for r in range(len(l) + 1))))) *)
Definition largest_subset {A} (input_list: list A) : list (list A) :=
  rev (flat_map (combinations input_list) (seq 0 (S (List.length input_list)))).

(* ---------- sorted(t) for a set of Variable nodes: Variables compare by name ---------- *)
Definition string_leb (a b: string) : bool := match String.compare a b with Gt => false | _ => true end.
Fixpoint insert_string (x: string) (l: list string) : list string :=
  match l with [] => [x] | y :: r => if string_leb x y then x :: l else y :: insert_string x r end.
Definition sort_strings (l: list string) : list string := fold_right insert_string [] l.

(* ---------- small helpers ---------- *)
(* a & b *)
Definition sinter (a b: vset) : vset := filter (fun x => Binding.smem x b) a.
(* s = set(); for r in lits: s.update(collect_ast(r, "Variable")); s.discard(Variable("_")) *)
Definition vars_of_lits (lits: list bodyelem) : vset := drop_anonymous (sof (flat_map vars_bodyelem lits)).
(* set(collect_ast(r, "Variable")) - {Variable("_")} *)
Definition vars_of_lit (r: bodyelem) : vset := drop_anonymous (sof (vars_bodyelem r)).

(* the local function aux of good_split: is_predicate(lit) and lit.sign == Sign.NoSign *)
Definition aux (x: bodyelem) : bool :=
  match x with BLit (Lit NoSign (ASym (TFun _ _ _))) => true | _ => false end.
(* len(collect_ast(x, "BodyAggregate")) > 0 : a BodyAggregate can only be the atom of a body literal *)
Definition has_body_aggregate (x: bodyelem) : bool :=
  match x with BLit (Lit _ (ABodyAgg _ _ _ _)) => true | _ => false end.

Definition body_has_theory (b: list bodyelem) : bool := existsb theory_bodyelem b.

(* ---------- good_split ----------
   None = "not a good split", Some vars = sorted(t) *)
Definition good_split (new rest: list bodyelem) (stm: stmt) : result (option (list string)) :=
  match stm with
  | SRule _ stm_head stm_body =>
    if orb (body_has_theory new) (orb (body_has_theory rest) (body_has_theory stm_body)) then OutOfFragment else
    (* if not (1 < len(new) < len(stm.body)) and len(rest): return None *)
    if andb (negb (andb (Nat.ltb 1 (List.length new)) (Nat.ltb (List.length new) (List.length stm_body))))
            (nonempty rest)
    then Ok None else
    (* new rule is legal *)
    rbind (collect_binding_information_body new None) (fun bu_new =>
    if nonempty (snd bu_new) then Ok None else
    (* staying rule still legal *)
    let vars_in_rest := vars_of_lits rest in
    rbind (global_vars_inside_body new) (fun global_new =>
    rbind (global_vars_inside_head stm_head) (fun global_head =>
    let t := sinter global_new (supdate vars_in_rest global_head) in
    rbind (collect_binding_information_body rest (Some t)) (fun bu_rest =>
    if nonempty (snd bu_rest) then Ok None else
    (* global vars can not become unglobal *)
    let vars_in_new := vars_of_lits new in
    let local_new := sdiff vars_in_new global_new in      (* Python recomputes global_vars_inside_body(new) *)
    rbind (global_vars_inside_body stm_body) (fun global_old =>
    if nonempty (sinter local_new global_old) then Ok None else
    (* split is useful *)
    if orb (Nat.leb (List.length global_old) (List.length (supdate t vars_in_rest)))
           (Nat.leb (List.length global_new) (List.length t))
    then Ok None else
    (* dont leave literals behind that do not introduce new variables *)
    if existsb (fun r => ssubset (vars_of_lit r) vars_in_new) rest then Ok None else
    (* rest contains at least one symbolic literal that is true *)
    if negb (existsb aux rest) then Ok None else
    (* dont split up aggregates *)
    if andb (existsb has_body_aggregate new) (existsb has_body_aggregate rest) then Ok None else
    (* only split if new rule has less head variables than old rule *)
    if Nat.leb (List.length global_head) (List.length t) then Ok None else
    Ok (Some (sort_strings t)))))))
  | _ => OutOfFragment
  end.

(* ---------- project_rule ----------
   the `for new_list in largest_subset(stm.body)` loop; returns the statements and the new state *)
Definition LOC_line : nat := 1.     (* LOC = Location(Position("<string>", 1, 1), ...) *)

Fixpoint project_rule_loop (st: unames) (line: nat) (stm_head: head) (stm_body: list bodyelem)
         (subsets: list (list bodyelem)) : result (list stmt * unames) :=
  match subsets with
  | [] => Ok ([SRule line stm_head stm_body], st)
  | new :: subsets' =>
      (* rest = [x for x in stm.body if x not in new] : AST equality, so every copy of a chosen literal goes *)
      let rest := filter (fun x => negb (mem bodyelem_eqb x new)) stm_body in
      rbind (good_split new rest (SRule line stm_head stm_body)) (fun split =>
      match split with
      | None => project_rule_loop st line stm_head stm_body subsets'
      | Some split_vars =>
          rbind (new_auxpredicate st (List.length split_vars)) (fun r =>
          let aux_pred := fst r in
          let new_head := Lit NoSign (ASym (TFun (fst aux_pred) (map TVar split_vars) false)) in
          let new_rule := SRule LOC_line (HLit new_head) new in
          let updated_rule := SRule line stm_head (rest ++ [BLit new_head]) in
          Ok ([new_rule; updated_rule], snd r))
      end)
  end.

Definition project_rule (st: unames) (stm: stmt) : result (list stmt * unames) :=
  match stm with
  | SRule line h b => project_rule_loop st line h b (largest_subset b)
  | _ => Raise "AssertionError"      (* assert stm.ast_type == ASTType.Rule *)
  end.

(* ---------- execute without inline_arithmetic ---------- *)
Fixpoint execute_loop (st: unames) (prg: list stmt) : result (list stmt * unames) :=
  match prg with
  | [] => Ok ([], st)
  | stm :: prg' =>
      match stm with
      | SRule _ _ _ =>
          rbind (project_rule st stm) (fun r =>
          rbind (execute_loop (snd r) prg') (fun r' => Ok (fst r ++ fst r', snd r')))
      | _ => rbind (execute_loop st prg') (fun r' => Ok (stm :: fst r', snd r'))
      end
  end.

(* ProjectionTranslator(ctor_prg, input_predicates).execute(prg) minus inline_arithmetic *)
Definition execute_core_state (ctor_prg: list stmt) (input_predicates: list pred) (prg: list stmt)
  : result (list stmt * unames) :=
  execute_loop (init_names ctor_prg input_predicates) prg.
Definition execute_core (ctor_prg: list stmt) (input_predicates: list pred) (prg: list stmt) : result (list stmt) :=
  rbind (execute_core_state ctor_prg input_predicates prg) (fun r => Ok (fst r)).

(* project_rule on every rule of prg with one translator, as execute threads the state;
   one entry per rule plus the final state. An exception leaves the state untouched (it is raised
   inside good_split, before new_auxpredicate) and the caller goes on with the next rule.
   An out-of-fragment rule ends the list. *)
Fixpoint project_rules (st: unames) (prg: list stmt) : list (result (list stmt)) * unames :=
  match prg with
  | [] => ([], st)
  | stm :: prg' =>
      match stm with
      | SRule _ _ _ =>
          match project_rule st stm with
          | Ok r => let x := project_rules (snd r) prg' in (Ok (fst r) :: fst x, snd x)
          | Raise k => let x := project_rules st prg' in (Raise k :: fst x, snd x)
          | OutOfFragment => ([OutOfFragment], st)
          | OutOfFuel => ([OutOfFuel], st)
          end
      | _ => project_rules st prg'
      end
  end.

(* a partition of the body given as a mask: true = goes to `new`, false = goes to `rest` *)
Fixpoint split_by_mask (body: list bodyelem) (mask: list bool) : list bodyelem * list bodyelem :=
  match body, mask with
  | x :: body', m :: mask' =>
      let r := split_by_mask body' mask' in
      if m then (x :: fst r, snd r) else (fst r, x :: snd r)
  | _, _ => ([], [])
  end.
Definition good_split_mask (stm: stmt) (mask: list bool) : result (option (list string)) :=
  match stm with
  | SRule _ _ b => let r := split_by_mask b mask in good_split (fst r) (snd r) stm
  | _ => OutOfFragment
  end.

(* ---------- comparison helpers for the correspondence families (vlib/fam_projection.py) ---------- *)
(* statement equality *with* the line of rules / minimize statements (clingo's == ignores it) *)
Definition stmt_line (s: stmt) : nat := match s with SRule l _ _ => l | SMin l _ _ _ _ => l | _ => 0 end.
Definition stmt_eqb_line (a b: stmt) : bool := andb (stmt_eqb a b) (Nat.eqb (stmt_line a) (stmt_line b)).
Definition stmts_eqb_line := list_eqb stmt_eqb_line.

Definition chk_subsets (model obs: list (list nat)) : bool := list_eqb (list_eqb Nat.eqb) model obs.
Definition chk_split (model obs: result (option (list string))) : bool :=
  chk_result (option_eqb (list_eqb String.eqb)) model obs.
Definition chk_stmts (model obs: result (list stmt)) : bool := chk_result stmts_eqb_line model obs.
(* per-rule results of one translator and its final state (auxcounter, known predicates as a set);
   an OutOfFragment entry ends the comparison *)
Fixpoint chk_rule_results (model obs: list (result (list stmt))) : option bool :=
  match model, obs with
  | [], [] => Some true
  | OutOfFragment :: _, _ :: _ => None
  | m :: model', o :: obs' =>
      if result_eqb stmts_eqb_line m o then chk_rule_results model' obs' else Some false
  | _, _ => Some false
  end.
Definition chk_rules (model: list (result (list stmt)) * unames) (obs: list (result (list stmt)))
           (obs_counter: nat) (obs_known: list pred) : bool :=
  match chk_rule_results (fst model) obs with
  | None => true
  | Some false => false
  | Some true => andb (Nat.eqb (auxcounter (snd model)) obs_counter) (pset_eqb (known (snd model)) obs_known)
  end.
Definition split_in_fragment (new rest: list bodyelem) (stm: stmt) : bool := in_fragment (good_split new rest stm).
Definition rules_in_fragment (x: list (result (list stmt)) * unames) : bool := forallb in_fragment (fst x).
