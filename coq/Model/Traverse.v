(* Model of the predicate collectors of ngo/utils/ast.py:272-400 (same yield order)
   and of auto_detect_input / auto_detect_output (ngo/utils/globals.py). No proofs here. *)
From Coq Require Import List String ZArith Bool.
From NGO Require Import Syntax.Ast.
Import ListNotations.
Open Scope string_scope. Open Scope list_scope.

Definition in_signs (s: sign) (ss: list sign) := existsb (sign_eqb s) ss.
Definition all_signs := [NoSign; Neg; NegNeg].

(* literal_predicate: the symbolic atom itself (only when its symbol is a Function node: pools,
   classically negated atoms -p(..) = UnaryOperation and variables are skipped), then the atoms
   inside an old-style aggregate (conditions are yielded twice, as in aggregate_predicate) or
   inside a body aggregate *)
Fixpoint literal_predicate (ss: list sign) (l: lit) : list spred :=
  match l with
  | Lit s a =>
    (match a with
     | ASym (TFun n args _) => if in_signs s ss then [(s, (n, List.length args))] else []
     | _ => [] end) ++
    (match a with
     | AAgg _ es _ =>
         flat_map (fun e => (literal_predicate ss (fst e) ++ flat_map (literal_predicate ss) (snd e))
                              ++ flat_map (literal_predicate ss) (snd e)) es
     | ABodyAgg _ _ es _ => flat_map (fun e => flat_map (literal_predicate ss) (snd e)) es
     | _ => [] end)
  end.

Definition condlit_predicate ss (c: condlit) : list spred :=
  literal_predicate ss (fst c) ++ flat_map (literal_predicate ss) (snd c).

Definition bodyelem_predicates ss (b: bodyelem) : list spred :=
  match b with BLit l => literal_predicate ss l | BCond l c => condlit_predicate ss (l, c) end.

Definition head_predicates ss (h: head) : list spred :=
  match h with
  | HLit l => literal_predicate ss l
  | HAgg _ es _ => flat_map (fun e => condlit_predicate ss e ++ flat_map (literal_predicate ss) (snd e)) es
  | HHeadAgg _ _ es _ => flat_map (fun e => condlit_predicate ss (snd e)) es
  | HDisj es => flat_map (condlit_predicate ss) es
  | HTheory _ => []
  end.

Definition body_predicates ss (s: stmt) : list spred :=
  match s with SRule _ _ b => flat_map (bodyelem_predicates ss) b | _ => [] end.
Definition minimize_predicates ss (s: stmt) : list spred :=
  match s with SMin _ _ _ _ b => flat_map (bodyelem_predicates ss) b | _ => [] end.

Definition predicates ss (s: stmt) : list spred :=
  match s with
  | SRule _ h b => head_predicates ss h ++ flat_map (bodyelem_predicates ss) b
  | SMin _ _ _ _ b => flat_map (bodyelem_predicates ss) b
  | _ => []
  end.

Definition headderivable (s: stmt) : list spred :=
  match s with
  | SRule _ h _ =>
    match h with
    | HLit l => literal_predicate [NoSign] l
    | HAgg _ es _ => flat_map (fun e => literal_predicate [NoSign] (fst e)) es
    | HHeadAgg _ _ es _ => flat_map (fun e => literal_predicate [NoSign] (fst (snd e))) es
    | HDisj es => flat_map (fun e => literal_predicate [NoSign] (fst e)) es
    | HTheory _ => []
    end
  | _ => [] end.

(* ---------- sets of predicates as duplicate-free lists ---------- *)
Definition pmem (p: pred) (l: list pred) := existsb (pred_eqb p) l.
Definition padd (p: pred) (l: list pred) := if pmem p l then l else l ++ [p].
Definition padd_all (ps: list pred) (l: list pred) := fold_left (fun acc p => padd p acc) ps l.

Definition pred_leb (a b: pred) : bool :=
  match String.compare (fst a) (fst b) with
  | Lt => true
  | Gt => false
  | Eq => Nat.leb (snd a) (snd b)
  end.
Fixpoint pinsert (x: pred) (l: list pred) : list pred :=
  match l with [] => [x] | y :: r => if pred_leb x y then x :: l else y :: pinsert x r end.
Definition psort (l: list pred) : list pred := fold_right pinsert [] l.

(* indices of the statements in which p occurs according to f *)
Fixpoint indices_where (f: stmt -> list spred) (p: pred) (i: nat) (prg: list stmt) : list nat :=
  match prg with
  | [] => []
  | s :: r => (if pmem p (map snd (f s)) then [i] else []) ++ indices_where f p (S i) r
  end.

Definition all_preds (prg: list stmt) : list pred :=
  fold_left (fun acc s => padd_all (map snd (predicates all_signs s)) acc) prg [].
Definition derivable_preds (prg: list stmt) : list pred :=
  fold_left (fun acc s => padd_all (map snd (headderivable s)) acc) prg [].

Definition body_or_min ss (s: stmt) := body_predicates ss s ++ minimize_predicates ss s.

(* auto_detect_input returns  sorted(all - derivable) ++ [p | p in all (hash order), in_body p = in_head p].
   The model returns both parts; the order of the second part is the iteration order of a Python set. *)
Definition auto_detect_input_parts (prg: list stmt) : list pred * list pred :=
  let all := all_preds prg in
  let der := derivable_preds prg in
  (psort (filter (fun p => negb (pmem p der)) all),
   filter (fun p => list_eqb Nat.eqb (indices_where (body_or_min all_signs) p 0 prg)
                                     (indices_where headderivable p 0 prg)) all).

Definition auto_detect_input (prg: list stmt) : list pred :=
  let r := auto_detect_input_parts prg in fst r ++ snd r.

Definition auto_detect_output (prg: list stmt) : list pred :=
  psort (fold_left (fun acc s =>
     match s with
     | SShowSig n a _ => padd (n, a) acc
     | SShowTerm _ b => padd_all (map snd (flat_map (bodyelem_predicates all_signs) b)) acc
     | _ => acc end) prg []).
