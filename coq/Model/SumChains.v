(* Executable model of ngo/sum_aggregates.py (class SumAggregator) and of AggAnalytics.__init__
   (ngo/utils/ast.py:110-151).  No proofs here.

   Conventions
   * The object state of SumAggregator is the record `sa_state`: the DomainPredicates object
     (Dependency.dstate, which contains the UniqueNames object and the functools.cache of _predicate),
     `_atmost_preds`, `_atleast_preds` and `objectives`.  Only the DomainPredicates part changes after
     the constructor; the methods that change it live in Dependency's state-and-exception monad `M`.
   * Hash order.  `_calc_at_most` iterates the Python set `global_preds` (Predicate dataclasses, hash
     order).  The order is observable: it is the order of `_atmost_preds`, `_get_trigger` takes the
     FIRST entry that fits, and it decides which exception is raised first.  The model therefore takes
     the iteration order as the explicit argument `order`; the chk_ functions check that `order` is a
     permutation of the model's own `global_preds`.
   * In-place mutation.  `old_condition = elem.condition; old_condition.remove(..); .append(..)` in
     _replace_elements works on clingo's ASTSequence *view*, i.e. it changes the BodyAggregateElement
     object of the INPUT program.  This is observable
       (a) inside one aggregate (`other == elem` in _element_passes sees the mutated siblings),
       (b) across statements when two statements share the element object (AST.unpool() and
           AST.update() copy shallowly, so `a(X) :- X = #sum{L,D: shift(D,L)}, p(1;2).` becomes two
           rules with ONE element object after preprocess),
       (c) through `x != minimize` in _get_var (self.objectives holds the input statements).
     The mirror is a tree, so object identity is an extra input: every body-aggregate element of the
     input carries a *cell* id (`Some n`; equal ids = same Python object), `store` maps a cell to its
     mutated content, and every read goes through `resolve_*` with the current store.  Output
     statements keep un-replaced elements by reference (their cell) and are resolved with the final
     store.  `default_cells` numbers all elements differently (no sharing).
     `minimize.body.remove(..)` in _replace_optimize mutates the fresh copy made by execute
     (`stm.update(body=newbody)`), which nobody else can see.
   * Exceptions are results (`Raise "AssertionError"`, `Raise "AttributeError"`, `Raise "RuntimeError"`, ...);
     after an exception the partially filled `ret` list of execute is lost, as in Python.
   * Generated statements carry LOC (line 1, Dependency.loc_line); replaced minimize statements keep
     their line (AST.update keeps the location). *)
From Coq Require Import List String ZArith Bool Arith.
From NGO Require Import Syntax.Ast Gen.Names Gen.Tables Model.Traverse Model.Corr Model.Globals Model.Binding
  Model.Unify Model.Dependency.
Import ListNotations.
Open Scope string_scope. Open Scope list_scope.

(* ================================================================================================ *)
(* AggAnalytics.__init__                                                                            *)
(* ================================================================================================ *)
Record analytics := mk_analytics {
  equal_variable_bound : list string;       (* names of the variables X in `X = #agg` / `#agg = X` *)
  bounds : list guard                        (* all other guards, written as right guards *)
}.

Definition agg_analytics (lg rg: option guard) : analytics :=
  let l :=
    match lg with
    | Some (c, t) =>
        match t with
        | TVar x => if cmp_eqb c CEq then ([x], []) else ([], [(rhs2lhs_comparison c, t)])
        | _ => ([], [(rhs2lhs_comparison c, t)])
        end
    | None => ([], [])
    end in
  let r :=
    match rg with
    | Some (c, t) =>
        match t with
        | TVar x => if cmp_eqb c CEq then ([x], []) else ([], [(c, t)])
        | _ => ([], [(c, t)])
        end
    | None => ([], [])
    end in
  mk_analytics (fst l ++ fst r) (snd l ++ snd r).

(* assert node.ast_type in (BodyAggregate, HeadAggregate, Aggregate) *)
Definition analytics_head (h: head) : result analytics :=
  match h with
  | HAgg lg _ rg => Ok (agg_analytics lg rg)
  | HHeadAgg lg _ _ rg => Ok (agg_analytics lg rg)
  | _ => Raise "AssertionError"
  end.
Definition analytics_atom (a: atom) : result analytics :=
  match a with
  | ABodyAgg lg _ _ rg => Ok (agg_analytics lg rg)
  | AAgg lg _ rg => Ok (agg_analytics lg rg)
  | _ => Raise "AssertionError"
  end.

(* ================================================================================================ *)
(* _calc_at_most_on_rule / _calc_at_most                                                            *)
(* ================================================================================================ *)
(* AnnotatedPredicate = Dependency.anon = (pred, annotated_positions) *)
Definition anon_eqb (a b: anon) : bool := andb (pred_eqb (fst a) (fst b)) (list_eqb Nat.eqb (snd a) (snd b)).
Definition anon_add (a: anon) (l: list anon) : list anon := if existsb (anon_eqb a) l then l else l ++ [a].

(* elem.terms and len(elem.terms) > 0 and elem.terms[0] is a SymbolicTerm with a Number > 0 *)
Definition positive_number_weight (ts: list term) : bool :=
  match ts with
  | TSym (SNum n) :: _ => Z.ltb 0 n
  | _ => false
  end.

(* [index for index, arg in enumerate(args)
     if not global_vars or not set(collect_ast(arg, "Variable")).issubset(global_vars)] *)
Definition unprojected_positions (global_vars: vset) (args: list term) : list nat :=
  map fst (filter (fun ia : nat * term =>
                     orb (negb (nonempty global_vars)) (negb (ssubset (vars_term (snd ia)) global_vars)))
                  (combine (seq 0 (List.length args)) args)).

(* one iteration of `for elem in head.elements`; the state is (preds, alone).
   fst e = Some terms for a HeadAggregateElement, None for the ConditionalLiteral of a choice *)
Definition amo_elem (global_vars: vset) (acc: result (list anon * bool)) (e: option (list term) * condlit)
  : result (list anon * bool) :=
  rbind acc (fun st =>
  let '(preds, alone) := st in
  let weight_ok := match fst e with Some ts => positive_number_weight ts | None => true end in
  if negb weight_ok then Ok (preds, false) else
  match fst (snd e) with
  | Lit NoSign (ASym symbol) =>
      match symbol with
      | TFun name args _ =>
          Ok (anon_add ((name, List.length args), unprojected_positions global_vars args) preds, alone)
      | _ => Raise "AssertionError"      (* assert condition.literal.atom.symbol.ast_type == ASTType.Function *)
      end
  | _ => Ok (preds, false)
  end).

Definition calc_at_most_on_rule (rule: stmt) : result (list anon * list anon) :=
  match rule with
  | SRule _ h body =>
      let go (lg rg: option guard) (elems: list (option (list term) * condlit)) : result (list anon * list anon) :=
        let a := agg_analytics lg rg in
        if negb (guaranteed_leq (bounds a) 1) then Ok ([], []) else
        rbind (collect_binding_information_body body None) (fun bu =>
        let global_vars := fst bu in
        rbind (fold_left (amo_elem global_vars) elems (Ok ([], true))) (fun st =>
        let '(preds, alone) := st in
        match preds with
        | [p] => Ok ([p], if andb (guaranteed_geq (bounds a) 1) alone then [p] else [])
        | _ => Ok ([], [])
        end)) in
      match h with
      | HHeadAgg lg f es rg =>
          match f with
          | FCount | FSum => go lg rg (map (fun e : helem => (Some (fst e), snd e)) es)
          | _ => Ok ([], [])
          end
      | HAgg lg es rg => go lg rg (map (fun e : condlit => (None, e)) es)
      | _ => Ok ([], [])
      end
  | _ => Raise "AssertionError"           (* assert rule.ast_type == ASTType.Rule *)
  end.

(* the set global_preds (any order) *)
Definition global_preds (prg: list stmt) (input_predicates: list pred) : list pred :=
  filter (fun p => negb (pmem p input_predicates)) (all_preds prg).

(* `for pred in global_preds` in the given order.  get_rules_that_derive reads a defaultdict and so
   inserts missing keys into rule_dependency.head2rules; nothing reads that dict afterwards. *)
Definition calc_at_most (rd: rdstate) (order: list pred) : result (list anon * list anon) :=
  fold_left (fun (acc: result (list anon * list anon)) (p: pred) =>
               rbind acc (fun r =>
               match fst (rd_get_rules_that_derive rd p) with
               | [rule] => rbind (calc_at_most_on_rule rule) (fun x => Ok (fst r ++ fst x, snd r ++ snd x))
               | _ => Ok r
               end))
            order (Ok ([], [])).

(* ================================================================================================ *)
(* _collect_objectives                                                                              *)
(* ================================================================================================ *)
(* defaultdict(list) keyed by the tuple (weight, priority, *terms); the values are the statements
   themselves (objects of the input program): kept as indices into the program *)
Definition objectives_t := list (list term * list nat).
Fixpoint obj_append (k: list term) (v: nat) (m: objectives_t) : objectives_t :=
  match m with
  | [] => [(k, [v])]
  | (k', vs) :: r => if list_eqb term_eqb k k' then (k', vs ++ [v]) :: r else (k', vs) :: obj_append k v r
  end.
Fixpoint collect_objectives_from (i: nat) (prg: list stmt) (m: objectives_t) : objectives_t :=
  match prg with
  | [] => m
  | SMin _ w p ts _ :: r => collect_objectives_from (S i) r (obj_append (w :: p :: ts) i m)
  | _ :: r => collect_objectives_from (S i) r m
  end.
Definition collect_objectives (prg: list stmt) : objectives_t := collect_objectives_from 0 prg [].

(* ================================================================================================ *)
(* the object                                                                                       *)
(* ================================================================================================ *)
Record sa_state := mk_sa {
  sa_dp : dstate;
  sa_atmost : list anon;
  sa_atleast : list anon;
  sa_objectives : objectives_t
}.

(* SumAggregator.__init__ : UniqueNames, RuleDependency (cannot raise), DomainPredicates,
   _calc_at_most, _collect_objectives, in this order *)
Definition sa_init (prg: list stmt) (input_predicates: list pred) (order: list pred) : result sa_state :=
  rbind (dp_init (init_names prg input_predicates) prg) (fun dp =>
  rbind (calc_at_most (rd_init prg) order) (fun am =>
  Ok (mk_sa dp (fst am) (snd am) (collect_objectives prg)))).

(* ================================================================================================ *)
(* _get_trigger                                                                                     *)
(* ================================================================================================ *)
Definition trigger := (lit * nat * anon)%type.     (* (lit, trigger_index, next_anon_pred) *)
Definition anonymous_var : term := TVar "_".

(* for i in next_anon_pred.annotated_positions: ...   state = (anon_are_anonymous, trigger_index) *)
Definition check_positions (args: list term) (minimize_var: term) (positions: list nat) (ti: option nat)
  : bool * option nat :=
  fold_left (fun (st: bool * option nat) (i: nat) =>
               let a := nth i args anonymous_var in
               if term_eqb a anonymous_var then st
               else if term_eqb a minimize_var then (fst st, Some i)
               else (false, snd st))
            positions (true, ti).

(* for next_anon_pred in self._atmost_preds: ...  `trigger_index` is NOT reset between the entries *)
Fixpoint trigger_atmost (atmost: list anon) (p: pred) (args: list term) (minimize_var: term) (ti: option nat)
  : result (option (nat * anon)) :=
  match atmost with
  | [] => Ok None
  | ap :: r =>
      if pred_eqb (fst ap) p then
        let '(ok, ti') := check_positions args minimize_var (snd ap) ti in
        if ok then
          match ti' with
          | Some i => Ok (Some (i, ap))
          | None => Raise "AssertionError"            (* assert trigger_index is not None *)
          end
        else trigger_atmost r p args minimize_var ti'
      else trigger_atmost r p args minimize_var ti
  end.

(* the sign of the literal is not looked at *)
Fixpoint get_trigger (atmost: list anon) (minimize_var: term) (body: list bodyelem) : result (option trigger) :=
  match body with
  | [] => Ok None
  | BCond _ _ :: _ => Ok None                          (* is_conditional(lit): return None *)
  | BLit l :: r =>
      match l with
      | Lit _ (ASym (TFun n args _)) =>
          rbind (trigger_atmost atmost (n, List.length args) args minimize_var None) (fun o =>
          match o with
          | Some (i, ap) => Ok (Some (l, i, ap))
          | None => get_trigger atmost minimize_var r
          end)
      | _ => get_trigger atmost minimize_var r         (* not is_predicate(lit) *)
      end
  end.

(* ================================================================================================ *)
(* _element_passes                                                                                  *)
(* ================================================================================================ *)
Definition count_string (x: string) (l: list string) : nat := List.length (filter (String.eqb x) l).

Definition element_passes (elem: belem) (elements: list belem) : result bool :=
  match fst elem with
  | [] => Raise "IndexError"                            (* elem.terms[0] *)
  | TVar v :: rest =>
      let others := flat_map vars_term rest ++ flat_map vars_lit (snd elem) in
      if negb (Nat.eqb (count_string v others) 1) then Ok false else
      Ok (forallb (fun other : belem =>
                     orb (belem_eqb other elem)
                         (negb (potentially_unifying_sequence (fst elem) (fst other))))
                  elements)
  | _ :: _ => Ok false
  end.

(* ================================================================================================ *)
(* object identity of aggregate elements                                                            *)
(* ================================================================================================ *)
Definition cellrow := list (option nat).                (* one per element of a body aggregate *)
Definition cellrows := list cellrow.                    (* one row per body element of a statement *)
Definition rstmt := (stmt * cellrows)%type.
Definition store := list (nat * belem).

Definition cur_elem (sto: store) (c: option nat * belem) : belem :=
  match fst c with
  | Some n => match alookup Nat.eqb n sto with Some e => e | None => snd c end
  | None => snd c
  end.
(* rows shorter than the lists they annotate mean "no reference" *)
Fixpoint zip_cells {A} (cs: list (option nat)) (es: list A) : list (option nat * A) :=
  match es with
  | [] => []
  | e :: es' =>
      match cs with
      | c :: cs' => (c, e) :: zip_cells cs' es'
      | [] => (None, e) :: zip_cells [] es'
      end
  end.
Fixpoint zip_rows {A B} (rows: list (list B)) (xs: list A) : list (A * list B) :=
  match xs with
  | [] => []
  | x :: xs' =>
      match rows with
      | r :: rows' => (x, r) :: zip_rows rows' xs'
      | [] => (x, []) :: zip_rows [] xs'
      end
  end.
Definition resolve_bodyelem (sto: store) (b: bodyelem * cellrow) : bodyelem :=
  match fst b with
  | BLit (Lit s (ABodyAgg lg f es rg)) =>
      BLit (Lit s (ABodyAgg lg f (map (cur_elem sto) (zip_cells (snd b) es)) rg))
  | x => x
  end.
Definition resolve_body (sto: store) (rows: cellrows) (body: list bodyelem) : list bodyelem :=
  map (resolve_bodyelem sto) (zip_rows rows body).
Definition resolve_stmt (sto: store) (rs: rstmt) : stmt :=
  match fst rs with
  | SRule line h body => SRule line h (resolve_body sto (snd rs) body)
  | SMin line w p ts body => SMin line w p ts (resolve_body sto (snd rs) body)
  | s => s
  end.

(* all elements are different objects *)
Definition number_bodyelem (n: nat) (b: bodyelem) : nat * cellrow :=
  match b with
  | BLit (Lit _ (ABodyAgg _ _ es _)) => (n + List.length es, map Some (seq n (List.length es)))
  | _ => (n, [])
  end.
Fixpoint number_body (n: nat) (body: list bodyelem) : nat * cellrows :=
  match body with
  | [] => (n, [])
  | b :: r =>
      let '(n1, row) := number_bodyelem n b in
      let '(n2, rows) := number_body n1 r in
      (n2, row :: rows)
  end.
Fixpoint number_prg (n: nat) (prg: list stmt) : list cellrows :=
  match prg with
  | [] => []
  | s :: r =>
      let body := match s with SRule _ _ b => b | SMin _ _ _ _ b => b | _ => [] end in
      let '(n1, rows) := number_body n body in
      rows :: number_prg n1 r
  end.
Definition default_cells (prg: list stmt) : list cellrows := number_prg 0 prg.

(* ================================================================================================ *)
(* the replacement shared by _replace_elements and _replace_optimize                                *)
(* ================================================================================================ *)
Definition PREV : term := TVar PREV_name.

(* [Variable(LOC, "none") if x.name == "_" else x for x in var_global_flat]: only Variable and
   Function nodes have an attribute `name` *)
Fixpoint without_anon (flat: list term) : result (list term) :=
  match flat with
  | [] => Ok []
  | x :: r =>
      match x with
      | TVar n => rbind (without_anon r) (fun r' => Ok ((if String.eqb n "_" then TVar "none" else x) :: r'))
      | TFun n _ _ => rbind (without_anon r) (fun r' => Ok ((if String.eqb n "_" then TVar "none" else x) :: r'))
      | _ => Raise "AttributeError"
      end
  end.

Record replacement := mk_replacement {
  r_rules : list stmt;          (* create_domain ++ create_next_pred.. ++ create_chain_pred.. *)
  r_new_lit : lit;              (* chain(G.., L) with the sign of the trigger literal *)
  r_next_pos : lit;             (* next(G.., __PREV, L) *)
  r_next_neg : lit;             (* not next(G.., _, L) *)
  r_term_prev : term;           (* next(G'.., __PREV, L) as tuple term *)
  r_term_last : term            (* next(G'.., L) as tuple term *)
}.

Definition build_replacement (tr: trigger) : M replacement :=
  let '(trigger_lit, trigger_index, ap) := tr in
  match trigger_lit with
  | Lit s (ASym (TFun _ trigger_args ext)) =>
      mbind (create_domain_top (fst ap)) (fun r1 =>
      mbind (create_next_pred_for_annotated_pred ap trigger_index) (fun r2 =>
      mbind (create_chain_pred_for_annotated_pred ap trigger_index true) (fun r3 =>
      mbind (chain_pred ap trigger_index true) (fun chain_p =>
      let flat := map (fun i => nth i trigger_args anonymous_var) (global_positions ap) in
      let var_l := nth trigger_index trigger_args anonymous_var in
      let new_lit := Lit s (ASym (TFun (fst chain_p) (flat ++ [var_l]) ext)) in
      mbind (next_anon_predicate ap trigger_index) (fun next_p =>
      let next_name := fst next_p in
      mbind (mlift (without_anon flat)) (fun flat_wo =>
      mret (mk_replacement (r1 ++ r2 ++ r3) new_lit
              (Lit NoSign (ASym (TFun next_name (flat ++ [PREV; var_l]) false)))
              (Lit Neg (ASym (TFun next_name (flat ++ [anonymous_var; var_l]) false)))
              (TFun next_name (flat_wo ++ [PREV; var_l]) false)
              (TFun next_name (flat_wo ++ [var_l]) false))))))))
  | _ => mraise "AttributeError"          (* unreachable: _get_trigger only returns predicate literals *)
  end.

Fixpoint remove_first {A} (e: A -> A -> bool) (x: A) (l: list A) : list A :=
  match l with
  | [] => []
  | y :: r => if e y x then r else y :: remove_first e x r
  end.

(* ================================================================================================ *)
(* _replace_elements                                                                                *)
(* ================================================================================================ *)
(* `all` = the ASTSequence `elements` (cells and original contents), `todo` = what is left of the
   iteration.  Result: (store, emitted rules, newelements with their references) *)
Fixpoint replace_elements_loop (atmost: list anon) (all todo: list (option nat * belem)) (sto: store)
         (rules: list stmt) (newel: list (option nat * belem))
  : M (store * list stmt * list (option nat * belem)) :=
  match todo with
  | [] => mret (sto, rules, newel)
  | c :: rest =>
      let elem := cur_elem sto c in
      match fst elem with
      | [] => replace_elements_loop atmost all rest sto rules newel       (* the element is dropped *)
      | t0 :: trest =>
          mbind (mlift (element_passes elem (map (cur_elem sto) all))) (fun passes =>
          if negb passes then replace_elements_loop atmost all rest sto rules (newel ++ [(fst c, elem)]) else
          mbind (mlift (get_trigger atmost t0 (map BLit (snd elem)))) (fun tr =>
          match tr with
          | None => replace_elements_loop atmost all rest sto rules (newel ++ [(fst c, elem)])
          | Some t =>
              mbind (build_replacement t) (fun rp =>
              let trigger_lit := fst (fst t) in
              (* old_condition.remove(trigger_lit); old_condition.append(new_lit): in place *)
              let old_condition := remove_first lit_eqb trigger_lit (snd elem) ++ [r_new_lit rp] in
              let sto' := match fst c with
                          | Some n => aset Nat.eqb n (fst elem, old_condition) sto
                          | None => sto
                          end in
              let e1 : belem := (TBin BMinus t0 PREV :: trest ++ [r_term_prev rp], old_condition ++ [r_next_pos rp]) in
              let e2 : belem := (t0 :: trest ++ [r_term_last rp], old_condition ++ [r_next_neg rp]) in
              replace_elements_loop atmost all rest sto' (rules ++ r_rules rp) (newel ++ [(None, e1); (None, e2)]))
          end))
      end
  end.

Definition replace_elements (atmost: list anon) (elements: list (option nat * belem)) (sto: store)
  : M (store * list stmt * list (option nat * belem)) :=
  replace_elements_loop atmost elements elements sto [] [].

(* ================================================================================================ *)
(* _get_var / _replace_optimize                                                                     *)
(* ================================================================================================ *)
(* `cur i` = the present content of the i-th statement of the input program *)
Definition get_var (objectives: objectives_t) (cur: nat -> stmt) (minimize: stmt) : option term :=
  match minimize with
  | SMin _ w p ts _ =>
      let unsafe :=
        flat_map (fun kv : list term * list nat =>
                    if potentially_unifying_sequence (fst kv) (w :: p :: ts)
                    then filter (fun x => negb (stmt_eqb (cur x) minimize)) (snd kv)
                    else [])
                 objectives in
      if nonempty unsafe then None else
      match w with
      | TVar _ => Some w
      | TUn UMinus (TVar v) => Some (TVar v)
      | _ => None
      end
  | _ => None
  end.

Definition is_weight_var (w: term) : bool := match w with TVar _ => true | _ => false end.

(* minimize is the copy made by execute: (statement, references of its aggregate elements) *)
Definition replace_optimize (sa_atm: list anon) (objectives: objectives_t) (cur: nat -> stmt) (sto: store)
           (minimize: rstmt) : M (list rstmt) :=
  match fst minimize with
  | SMin line w p ts body =>
      let rows := snd minimize in
      let now := resolve_stmt sto minimize in
      match get_var objectives cur now with
      | None => mret [minimize]
      | Some minimize_var =>
          let v := match minimize_var with TVar v => v | _ => "" end in
          let others := flat_map vars_term (p :: ts)
                        ++ flat_map vars_bodyelem (resolve_body sto rows body) in
          if negb (Nat.eqb (count_string v others) 1) then mret [minimize] else
          mbind (mlift (get_trigger sa_atm minimize_var body)) (fun tr =>
          match tr with
          | None => mret [minimize]
          | Some t =>
              mbind (build_replacement t) (fun rp =>
              let trigger_lit := fst (fst t) in
              let zipped := remove_first (fun (y x: bodyelem * cellrow) => bodyelem_eqb (fst y) (fst x))
                                         (BLit trigger_lit, []) (zip_rows rows body)
                            ++ [(BLit (r_new_lit rp), [])] in
              let old_condition := map fst zipped in
              let old_rows := map snd zipped in
              let weight0 := TBin BMinus minimize_var PREV in
              let weight := if is_weight_var w then weight0 else TUn UMinus weight0 in
              let m1 := SMin line weight p (ts ++ [r_term_prev rp]) (old_condition ++ [BLit (r_next_pos rp)]) in
              let m2 := SMin line w p (ts ++ [r_term_last rp]) (old_condition ++ [BLit (r_next_neg rp)]) in
              mret (map (fun s => (s, [])) (r_rules rp) ++ [(m1, old_rows); (m2, old_rows)]))
          end)
      end
  | _ => mraise "AssertionError"           (* assert minimize.ast_type == ASTType.Minimize *)
  end.

(* ================================================================================================ *)
(* execute                                                                                          *)
(* ================================================================================================ *)
Definition is_sum (f: aggfun) : bool := match f with FSum | FSumPlus => true | _ => false end.

(* `for blit in stm.body` : (store, emitted rules, newbody, its references) *)
Fixpoint replace_body (atmost: list anon) (body: list (bodyelem * cellrow)) (sto: store) (rules: list stmt)
         (newbody: list (bodyelem * cellrow)) : M (store * list stmt * list (bodyelem * cellrow)) :=
  match body with
  | [] => mret (sto, rules, newbody)
  | (b, row) :: rest =>
      match b with
      | BLit (Lit s (ABodyAgg lg f es rg)) =>
          if is_sum f then
            mbind (replace_elements atmost (zip_cells row es) sto) (fun r =>
            let '(sto', rules', newel) := r in
            replace_body atmost rest sto' (rules ++ rules')
                         (newbody ++ [(BLit (Lit s (ABodyAgg lg f (map snd newel) rg)), map fst newel)]))
          else replace_body atmost rest sto rules (newbody ++ [(b, row)])
      | _ => replace_body atmost rest sto rules (newbody ++ [(b, row)])
      end
  end.

Definition nth_rstmt (prg: list rstmt) (i: nat) : rstmt := nth i prg (SOther "" "", []).

Fixpoint execute_loop (atmost: list anon) (objectives: objectives_t) (prg todo: list rstmt) (sto: store)
         (ret: list rstmt) : M (store * list rstmt) :=
  match todo with
  | [] => mret (sto, ret)
  | (stm, rows) :: rest =>
      match stm with
      | SRule line h body =>
          mbind (replace_body atmost (zip_rows rows body) sto [] []) (fun r =>
          let '(sto', rules, newbody) := r in
          execute_loop atmost objectives prg rest sto'
                       (ret ++ map (fun s => (s, [])) rules ++ [(SRule line h (map fst newbody), map snd newbody)]))
      | SMin line w p ts body =>
          mbind (replace_body atmost (zip_rows rows body) sto [] []) (fun r =>
          let '(sto', rules, newbody) := r in
          let cur := fun i => resolve_stmt sto' (nth_rstmt prg i) in
          mbind (replace_optimize atmost objectives cur sto'
                                  (SMin line w p ts (map fst newbody), map snd newbody)) (fun out =>
          execute_loop atmost objectives prg rest sto' (ret ++ map (fun s => (s, [])) rules ++ out)))
      | _ => execute_loop atmost objectives prg rest sto (ret ++ [(stm, rows)])
      end
  end.

(* X.execute(prg) on the object state `sa`; prg is the constructor's program (as in ngo/api.py) *)
Definition execute_on (sa: sa_state) (prg: list stmt) (cells: list cellrows) : dstate * result (list stmt) :=
  let rprg := zip_rows cells prg in
  match execute_loop (sa_atmost sa) (sa_objectives sa) rprg rprg [] [] (sa_dp sa) with
  | (st, Ok (sto, ret)) => (st, Ok (map (resolve_stmt sto) ret))
  | (st, Raise k) => (st, Raise k)
  | (st, OutOfFragment) => (st, OutOfFragment)
  | (st, OutOfFuel) => (st, OutOfFuel)
  end.

(* the input program as the caller sees it after execute (its aggregate elements were mutated) *)
Definition input_after_on (sa: sa_state) (prg: list stmt) (cells: list cellrows) : result (list stmt) :=
  let rprg := zip_rows cells prg in
  match execute_loop (sa_atmost sa) (sa_objectives sa) rprg rprg [] [] (sa_dp sa) with
  | (_, Ok (sto, _)) => Ok (map (resolve_stmt sto) rprg)
  | (_, Raise k) => Raise k
  | (_, OutOfFragment) => OutOfFragment
  | (_, OutOfFuel) => OutOfFuel
  end.

(* X = SumAggregator(prg, input_predicates); X.execute(prg) *)
Definition execute_cells (prg: list stmt) (input_predicates: list pred) (order: list pred) (cells: list cellrows)
  : result (list stmt) :=
  rbind (sa_init prg input_predicates order) (fun sa => snd (execute_on sa prg cells)).
Definition execute (prg: list stmt) (input_predicates: list pred) (order: list pred) : result (list stmt) :=
  execute_cells prg input_predicates order (default_cells prg).

(* ================================================================================================ *)
(* entry points and comparison helpers for vlib/fam_sumchains.py                                    *)
(* ================================================================================================ *)
Definition perm_of_global_preds (prg: list stmt) (ins order: list pred) : bool :=
  let g := global_preds prg ins in
  andb (Nat.eqb (List.length g) (List.length order)) (pset_eqb g order).

Definition anons_eqb (a b: list anon) : bool := list_eqb anon_eqb a b.
Definition analytics_obs := (list string * list guard * list bool * list bool)%type.
(* observed: equal_variable_bound, bounds, guaranteed_leq(n) and guaranteed_geq(n) for n in numbers *)
Definition chk_analytics (a: result analytics) (numbers: list Z) (obs: result analytics_obs) : bool :=
  match a, obs with
  | Ok a, Ok (ev, bs, leq, geq) =>
      andb (list_eqb String.eqb (equal_variable_bound a) ev)
        (andb (list_eqb guard_eqb (bounds a) bs)
          (andb (list_eqb Bool.eqb (map (guaranteed_leq (bounds a)) numbers) leq)
                (list_eqb Bool.eqb (map (guaranteed_geq (bounds a)) numbers) geq)))
  | Raise k, Raise k' => String.eqb k k'
  | _, _ => false
  end.

Definition chk_at_most_rule (model obs: result (list anon * list anon)) : bool :=
  chk_result (pair_eqb anons_eqb anons_eqb) model obs.

(* constructor: (_atmost_preds, _atleast_preds, objectives as (key, statements)) *)
Definition init_obs := (list anon * list anon * list (list term * list stmt))%type.
Definition init_view (prg: list stmt) (sa: sa_state) : init_obs :=
  (sa_atmost sa, sa_atleast sa,
   map (fun kv : list term * list nat => (fst kv, map (fun i => nth i prg (SOther "" "")) (snd kv))) (sa_objectives sa)).
Definition init_obs_eqb (a b: init_obs) : bool :=
  andb (anons_eqb (fst (fst a)) (fst (fst b)))
    (andb (anons_eqb (snd (fst a)) (snd (fst b)))
          (list_eqb (pair_eqb (list_eqb term_eqb) (list_eqb stmt_eqb)) (snd a) (snd b))).
Definition chk_init (prg: list stmt) (ins order: list pred) (obs: result init_obs) : bool :=
  andb (perm_of_global_preds prg ins order)
       (chk_result init_obs_eqb (rbind (sa_init prg ins order) (fun sa => Ok (init_view prg sa))) obs).
(* the same modulo the hash order: _atmost_preds / _atleast_preds compared as multisets, for every
   order the model is given (here: the order of first occurrence) *)
Fixpoint anon_remove (a: anon) (l: list anon) : option (list anon) :=
  match l with
  | [] => None
  | b :: r => if anon_eqb a b then Some r else match anon_remove a r with Some r' => Some (b :: r') | None => None end
  end.
Fixpoint anon_perm (a b: list anon) : bool :=
  match a with
  | [] => match b with [] => true | _ => false end
  | x :: r => match anon_remove x b with Some b' => anon_perm r b' | None => false end
  end.
Definition chk_at_most_unordered (prg: list stmt) (ins: list pred) (obs_atmost obs_atleast: list anon) : bool :=
  match sa_init prg ins (global_preds prg ins) with
  | Ok sa => andb (anon_perm (sa_atmost sa) obs_atmost) (anon_perm (sa_atleast sa) obs_atleast)
  | OutOfFragment => true
  | _ => false
  end.

Definition trigger_eqb (a b: trigger) : bool :=
  andb (lit_eqb (fst (fst a)) (fst (fst b))) (andb (Nat.eqb (snd (fst a)) (snd (fst b))) (anon_eqb (snd a) (snd b))).
Definition chk_trigger (model obs: result (option trigger)) : bool :=
  chk_result (option_eqb trigger_eqb) model obs.

Definition chk_passes (model obs: result bool) : bool := chk_result Bool.eqb model obs.

(* _replace_elements on the j-th body literal of the i-th statement of a FRESH object:
   (newelements, rules appended to prg, the elements of the input aggregate afterwards) *)
Definition replace_obs := (list belem * list stmt * list belem)%type.
Definition replace_elements_at (prg: list stmt) (ins order: list pred) (cells: list cellrows) (i j: nat)
  : result replace_obs :=
  rbind (sa_init prg ins order) (fun sa =>
  let rows := nth i cells [] in
  let body := match nth i prg (SOther "" "") with SRule _ _ b => b | SMin _ _ _ _ b => b | _ => [] end in
  match nth j (zip_rows rows body) (BLit (Lit NoSign (ABool true)), []) with
  | (BLit (Lit _ (ABodyAgg _ _ es _)), row) =>
      let elements := zip_cells row es in
      match replace_elements (sa_atmost sa) elements [] (sa_dp sa) with
      | (_, Ok (sto, rules, newel)) =>
          (* newelements hold the kept elements by reference: read them after the call *)
          Ok (map (cur_elem sto) newel, rules, map (cur_elem sto) elements)
      | (_, Raise k) => Raise k
      | (_, OutOfFragment) => OutOfFragment
      | (_, OutOfFuel) => OutOfFuel
      end
  | _ => Raise "AttributeError"
  end).
Definition replace_obs_eqb (a b: replace_obs) : bool :=
  andb (list_eqb belem_eqb (fst (fst a)) (fst (fst b)))
    (andb (list_eqb stmt_eqb (snd (fst a)) (snd (fst b))) (list_eqb belem_eqb (snd a) (snd b))).
Definition chk_replace_elements (model obs: result replace_obs) : bool := chk_result replace_obs_eqb model obs.

(* _get_var / _replace_optimize on a copy (stm.update(body=list(stm.body))) of the i-th statement of a
   FRESH object *)
Definition get_var_at (prg: list stmt) (ins order: list pred) (i: nat) : result (option term) :=
  rbind (sa_init prg ins order) (fun sa =>
  Ok (get_var (sa_objectives sa) (fun k => nth k prg (SOther "" "")) (nth i prg (SOther "" "")))).
Definition chk_get_var (model obs: result (option term)) : bool := chk_result (option_eqb term_eqb) model obs.

Definition replace_optimize_at (prg: list stmt) (ins order: list pred) (i: nat) : result (list stmt) :=
  rbind (sa_init prg ins order) (fun sa =>
  let rprg := zip_rows (default_cells prg) prg in
  match replace_optimize (sa_atmost sa) (sa_objectives sa) (fun k => nth k prg (SOther "" "")) []
                         (nth_rstmt rprg i) (sa_dp sa) with
  | (_, Ok out) => Ok (map (resolve_stmt []) out)
  | (_, Raise k) => Raise k
  | (_, OutOfFragment) => OutOfFragment
  | (_, OutOfFuel) => OutOfFuel
  end).

(* execute: the result and the (mutated) input program afterwards *)
Definition chk_execute (prg: list stmt) (ins order: list pred) (cells: list cellrows)
           (obs obs_input_after: result (list stmt)) : bool :=
  andb (perm_of_global_preds prg ins order)
    (andb (chk_prog (execute_cells prg ins order cells) obs)
          (match sa_init prg ins order with
           | Ok sa => match obs_input_after with
                      | Ok _ => chk_prog (input_after_on sa prg cells) obs_input_after
                      | _ => true
                      end
           | _ => true
           end)).
Definition execute_in_fragment (prg: list stmt) (ins order: list pred) (cells: list cellrows) : bool :=
  in_fragment (execute_cells prg ins order cells).
