(* Model of ngo.utils.ast.negate_agg (used by the math pass to put a rewritten aggregate back under `not`):
   only the aggregate's OWN guards are negated, through the negate_comparison table translated from the source.
   No proofs here. *)
From Coq Require Import List String ZArith Bool.
From NGO Require Import Syntax.Ast Gen.Tables.
Import ListNotations.

Definition neg_guard (g: option guard) : option guard :=
  match g with Some (c, t) => Some (negate_comparison c, t) | None => None end.

Definition negate_agg (a: atom) : result atom :=
  match a with
  | ABodyAgg lg f es rg => Ok (ABodyAgg (neg_guard lg) f es (neg_guard rg))
  | AAgg lg es rg => Ok (AAgg (neg_guard lg) es (neg_guard rg))
  | _ => Raise "AssertionError"
  end.

Definition chk_negate_agg (r: result atom) (obs: option atom) : bool :=
  match r, obs with
  | Ok a, Some b => atom_eqb a b
  | Raise _, None => true
  | _, _ => false
  end.
