(* Executable model of ngo/dependency.py:
     RuleDependency (prefix rd_), _create_graph_from_prg, DomainPredicates (all methods).
   No proofs here.

   Conventions
   * The object state of DomainPredicates is the record `dstate`; every method that mutates is a
     function in the state-and-exception monad `M A := dstate -> dstate * result A` (the state is
     returned also when the method raises: `created_domain.add(pred)` happens before the
     RuntimeError of create_domain).  Generators are lists in yield order; an exception raised while
     the generator is consumed by `list(...)` loses the rules yielded so far.
   * `_predicate` is `functools.cache`d per (self, name, arity): field `pred_cache`.
   * Python sets (`_not_static`, `_too_complex`, `created_domain`) are duplicate-free lists, only
     membership is observable; `domains` / `domain_rules` are insertion-ordered association lists.
   * Graphs (networkx.DiGraph) are duplicate-free edge lists over `pred`; the node set is the set of
     end points.  SCC membership = mutual reachability, reachability = fuel-bounded closure.  The
     propagation of `_not_static` along a topological order of the cycle-free graph is computed as
     the least fixpoint (the resulting set does not depend on the chosen topological order:
     every predecessor of a node is either cyclic, hence already marked, or earlier in the order).
   * `x.unpool(condition=True)` is the identity on statements without pools; a rule that still contains
     a Pool node, or a theory atom (whose element conditions are opaque in the mirror but are visited
     by collect_ast / transform_ast), makes the constructor answer OutOfFragment.
   * `collect_ast(node, "SymbolicAtom")`: symbolic atoms do not nest, so this is the list of all
     symbolic atoms in clingo's attribute order (`symatoms_*`). *)
From Coq Require Import List String Ascii ZArith Bool Arith.
From NGO Require Import Syntax.Ast Gen.Names Model.Traverse Model.Corr Model.Globals Model.Binding.
Import ListNotations.
Open Scope string_scope. Open Scope list_scope.

(* ================================================================================================ *)
(* generic helpers                                                                                  *)
(* ================================================================================================ *)
(* any(f(x) for x in l) with early exit; f may raise *)
Fixpoint any_r {A} (f: A -> result bool) (l: list A) : result bool :=
  match l with
  | [] => Ok false
  | x :: r => rbind (f x) (fun b => if b then Ok true else any_r f r)
  end.
Definition orelse_r (a: result bool) (b: unit -> result bool) : result bool :=
  rbind a (fun x => if x then Ok true else b tt).

Section Alist.
  Context {K V: Type} (keq: K -> K -> bool).
  Fixpoint alookup (k: K) (m: list (K * V)) : option V :=
    match m with
    | [] => None
    | (k', v) :: r => if keq k k' then Some v else alookup k r
    end.
  (* d[k] = v : replaces in place, new keys go to the end *)
  Fixpoint aset (k: K) (v: V) (m: list (K * V)) : list (K * V) :=
    match m with
    | [] => [(k, v)]
    | (k', v') :: r => if keq k k' then (k', v) :: r else (k', v') :: aset k v r
    end.
  Definition ahas (k: K) (m: list (K * V)) : bool := match alookup k m with Some _ => true | None => false end.
End Alist.

(* symbols of all SymbolicAtom nodes below a node, in visiting order *)
Fixpoint symatoms_atom (a: atom) : list term :=
  match a with
  | ASym t => [t]
  | ABodyAgg _ _ es _ => flat_map (fun e => flat_map symatoms_lit (snd e)) es
  | AAgg _ es _ => flat_map (fun e => symatoms_lit (fst e) ++ flat_map symatoms_lit (snd e)) es
  | _ => []
  end
with symatoms_lit (l: lit) : list term := match l with Lit _ a => symatoms_atom a end.
Definition symatoms_bodyelem (b: bodyelem) : list term :=
  match b with
  | BLit l => symatoms_lit l
  | BCond l c => symatoms_lit l ++ flat_map symatoms_lit c
  end.

(* transform_ast(node, "SymbolicAtom", f) where f only changes the symbol *)
Fixpoint map_sym_atom (f: term -> term) (a: atom) : atom :=
  match a with
  | ASym t => ASym (f t)
  | ABodyAgg lg fn es rg => ABodyAgg lg fn (map (fun e => (fst e, map (map_sym_lit f) (snd e))) es) rg
  | AAgg lg es rg => AAgg lg (map (fun e => (map_sym_lit f (fst e), map (map_sym_lit f) (snd e))) es) rg
  | _ => a
  end
with map_sym_lit (f: term -> term) (l: lit) : lit := match l with Lit s a => Lit s (map_sym_atom f a) end.
Definition map_sym_bodyelem (f: term -> term) (b: bodyelem) : bodyelem :=
  match b with
  | BLit l => BLit (map_sym_lit f l)
  | BCond l c => BCond (map_sym_lit f l) (map (map_sym_lit f) c)
  end.

(* Predicate(symbol.name, len(symbol.arguments)): only Function nodes have both attributes
   (UnaryOperation for -p(X): "no attribute: name") *)
Definition sym_pred (t: term) : result pred :=
  match t with
  | TFun n args _ => Ok (n, List.length args)
  | _ => Raise "AttributeError"
  end.
Definition is_fun (t: term) : bool := match t with TFun _ _ _ => true | _ => false end.

(* ---------- fragment: pools and theory atoms inside rules ---------- *)
Definition is_pool (t: term) : bool := match t with TPool _ => true | _ => false end.
Definition pool_term (t: term) : bool := nonempty (collect_term is_pool t).
Definition pool_lit (l: lit) : bool := nonempty (collect_lit is_pool l).
Definition pool_oguard (g: option guard) : bool := nonempty (collect_oguard is_pool g).
Definition bad_lit (l: lit) : bool := orb (pool_lit l) (lit_has_theory l).
Definition bad_condlit (c: condlit) : bool := orb (bad_lit (fst c)) (existsb bad_lit (snd c)).
Definition bad_bodyelem (b: bodyelem) : bool :=
  match b with BLit l => bad_lit l | BCond l c => bad_condlit (l, c) end.
Definition bad_head (h: head) : bool :=
  match h with
  | HLit l => bad_lit l
  | HDisj es => existsb bad_condlit es
  | HAgg lg es rg => orb (pool_oguard lg) (orb (existsb bad_condlit es) (pool_oguard rg))
  | HHeadAgg lg _ es rg =>
      orb (pool_oguard lg)
        (orb (existsb (fun e => orb (existsb pool_term (fst e)) (bad_condlit (snd e))) es) (pool_oguard rg))
  | HTheory _ => true
  end.
Definition stmt_in_fragment (s: stmt) : bool :=
  match s with
  | SRule _ h b => negb (orb (bad_head h) (existsb bad_bodyelem b))
  | _ => true
  end.
Definition dep_in_fragment (prg: list stmt) : bool := forallb stmt_in_fragment prg.

(* ================================================================================================ *)
(* RuleDependency                                                                                   *)
(* ================================================================================================ *)
(* the three defaultdict(list); reading a missing key *inserts* it (get_bodies(p) on an unknown p
   makes p show up in get_headderivable_predicates afterwards) *)
Record rdstate := mk_rd {
  head2bodies : list (pred * list (list bodyelem));
  head2rules : list (pred * list stmt);
  pred2stm : list (pred * list stmt)
}.

(* d[k].append(v) on a defaultdict(list) *)
Fixpoint dd_append {V} (k: pred) (v: V) (m: list (pred * list V)) : list (pred * list V) :=
  match m with
  | [] => [(k, [v])]
  | (k', vs) :: r => if pred_eqb k k' then (k', vs ++ [v]) :: r else (k', vs) :: dd_append k v r
  end.
(* d[k] on a defaultdict(list) *)
Definition dd_get {V} (k: pred) (m: list (pred * list V)) : list V * list (pred * list V) :=
  match alookup pred_eqb k m with
  | Some vs => (vs, m)
  | None => ([], m ++ [(k, [])])
  end.

Definition rd_init_stm (st: rdstate) (stm: stmt) : rdstate :=
  let st1 :=
    match stm with
    | SRule _ _ body =>
        fold_left (fun st h => mk_rd (dd_append h body (head2bodies st)) (dd_append h stm (head2rules st)) (pred2stm st))
                  (map snd (headderivable stm)) st
    | _ => st
    end in
  fold_left (fun st p => mk_rd (head2bodies st) (head2rules st) (dd_append p stm (pred2stm st)))
            (map snd (body_predicates all_signs stm ++ minimize_predicates all_signs stm)) st1.
Definition rd_init (prg: list stmt) : rdstate := fold_left rd_init_stm prg (mk_rd [] [] []).

Definition rd_get_bodies (st: rdstate) (h: pred) : list (list bodyelem) * rdstate :=
  let '(v, m) := dd_get h (head2bodies st) in (v, mk_rd m (head2rules st) (pred2stm st)).
Definition rd_get_rules_that_derive (st: rdstate) (h: pred) : list stmt * rdstate :=
  let '(v, m) := dd_get h (head2rules st) in (v, mk_rd (head2bodies st) m (pred2stm st)).
Definition rd_get_headderivable_predicates (st: rdstate) : list pred := map fst (head2bodies st).
Definition rd_get_statements_that_use (st: rdstate) (p: pred) : list stmt * rdstate :=
  let '(v, m) := dd_get p (pred2stm st) in (v, mk_rd (head2bodies st) (head2rules st) m).

(* ================================================================================================ *)
(* _create_graph_from_prg                                                                           *)
(* ================================================================================================ *)
Definition edge := (pred * pred)%type.
Definition edge_eqb (a b: edge) : bool := andb (pred_eqb (fst a) (fst b)) (pred_eqb (snd a) (snd b)).
Definition emem (e: edge) (g: list edge) : bool := existsb (edge_eqb e) g.
Definition eadd (e: edge) (g: list edge) : list edge := if emem e g then g else g ++ [e].

(* prg must be pool free (unpool(condition=True) is then the identity) *)
Definition create_graph_from_prg (prg: list stmt) (signs: list sign) : list edge :=
  fold_left (fun g stm =>
               match stm with
               | SRule _ _ _ =>
                   let heads := map snd (headderivable stm) in
                   let bodies := map snd (body_predicates signs stm) in
                   fold_left (fun g b => fold_left (fun g h => eadd (b, h) g) heads g) bodies g
               | _ => g
               end) prg [].
Definition graph_nodes (g: list edge) : list pred :=
  fold_left (fun acc e => padd (snd e) (padd (fst e) acc)) g [].

Definition succs (g: list edge) (n: pred) : list pred :=
  map snd (filter (fun e => pred_eqb (fst e) n) g).
Definition preds_of (g: list edge) (n: pred) : list pred :=
  map fst (filter (fun e => pred_eqb (snd e) n) g).
Fixpoint reach_closure (fuel: nat) (g: list edge) (s: list pred) : list pred :=
  match fuel with
  | 0 => s
  | S f =>
      let s' := fold_left (fun acc n => padd_all (succs g n) acc) s s in
      if Nat.eqb (List.length s') (List.length s) then s else reach_closure f g s'
  end.
(* the nodes reachable from n by at least one edge *)
Definition reachable (g: list edge) (n: pred) : list pred :=
  reach_closure (S (List.length (graph_nodes g))) g (padd_all (succs g n) []).
Definition reach_table (g: list edge) : list (pred * list pred) :=
  map (fun n => (n, reachable g n)) (graph_nodes g).
Definition reaches (tbl: list (pred * list pred)) (a b: pred) : bool :=
  match alookup pred_eqb a tbl with Some l => pmem b l | None => false end.
(* n lies in a strongly connected component with more than one node *)
Definition in_big_scc (tbl: list (pred * list pred)) (n: pred) : bool :=
  existsb (fun m => andb (negb (pred_eqb n (fst m))) (andb (reaches tbl n (fst m)) (reaches tbl (fst m) n))) tbl.
Definition selfloop (g: list edge) (n: pred) : bool := emem (n, n) g.

(* ================================================================================================ *)
(* DomainPredicates: state                                                                          *)
(* ================================================================================================ *)
Definition dr_entry := (atom * list bodyelem)%type.              (* (head atom, conditions) *)
Definition dr_map := list (pred * list dr_entry).
Definition pkey := (string * nat)%type.
Definition pkey_eqb (a b: pkey) : bool := andb (String.eqb (fst a) (fst b)) (Nat.eqb (snd a) (snd b)).

Record dstate := mk_dstate {
  unique_names : unames;
  not_static : list pred;
  domains : list (pred * pred);
  domain_rules : dr_map;
  too_complex : list pred;
  created_domain : list pred;
  pred_cache : list (pkey * pred)
}.
Definition set_names (st: dstate) (un: unames) (c: list (pkey * pred)) : dstate :=
  mk_dstate un (not_static st) (domains st) (domain_rules st) (too_complex st) (created_domain st) c.
Definition set_not_static (st: dstate) (ns: list pred) : dstate :=
  mk_dstate (unique_names st) ns (domains st) (domain_rules st) (too_complex st) (created_domain st) (pred_cache st).
Definition set_domains (st: dstate) (d: list (pred * pred)) (dr: dr_map) : dstate :=
  mk_dstate (unique_names st) (not_static st) d dr (too_complex st) (created_domain st) (pred_cache st).
Definition set_created (st: dstate) (c: list pred) : dstate :=
  mk_dstate (unique_names st) (not_static st) (domains st) (domain_rules st) (too_complex st) c (pred_cache st).

Definition M (A: Type) := dstate -> dstate * result A.
Definition mret {A} (a: A) : M A := fun st => (st, Ok a).
Definition mraise {A} (k: string) : M A := fun st => (st, Raise k).
Definition mlift {A} (r: result A) : M A := fun st => (st, r).
Definition mbind {A B} (m: M A) (f: A -> M B) : M B :=
  fun st =>
    match m st with
    | (st', Ok a) => f a st'
    | (st', Raise k) => (st', Raise k)
    | (st', OutOfFragment) => (st', OutOfFragment)
    | (st', OutOfFuel) => (st', OutOfFuel)
    end.
(* run f over l, concatenating the yielded lists *)
Fixpoint mconcat {A B} (f: A -> M (list B)) (l: list A) : M (list B) :=
  match l with
  | [] => mret []
  | x :: r => mbind (f x) (fun ys => mbind (mconcat f r) (fun zs => mret (ys ++ zs)))
  end.

(* ---------- is_static / has_domain / domain_predicate ---------- *)
Definition is_static (st: dstate) (p: pred) : bool := negb (pmem p (not_static st)).
Definition has_domain (st: dstate) (p: pred) : bool := orb (is_static st p) (ahas pred_eqb p (domains st)).
Definition domain_predicate (st: dstate) (p: pred) : result pred :=
  if negb (has_domain st p) then Raise "AssertionError"
  else if is_static st p then Ok p
  else match alookup pred_eqb p (domains st) with Some d => Ok d | None => Raise "KeyError" end.

(* ---------- _predicate (functools.cache) and the naming functions ---------- *)
Definition predicate_ (name: string) (arity: nat) : M pred :=
  fun st =>
    match alookup pkey_eqb (name, arity) (pred_cache st) with
    | Some p => (st, Ok p)
    | None =>
        match new_predicate (unique_names st) name arity with
        | Ok (p, un) => (set_names st un (pred_cache st ++ [((name, arity), p)]), Ok p)
        | Raise k => (st, Raise k)
        | OutOfFragment => (st, OutOfFragment)
        | OutOfFuel => (st, OutOfFuel)
        end
    end.

(* AnnotatedPredicate(pred, annotated_positions) *)
Definition anon := (pred * list nat)%type.
(* '_'.join(str(pos) for pos in positions) *)
Definition join_positions (ps: list nat) : string := String.concat "_" (map string_of_nat ps).
(* pred.arity - len(annotated_positions) + k ; negative arities are outside the model *)
Definition anon_arity (ap: anon) (k: Z) : result nat :=
  let z := (Z.of_nat (snd (fst ap)) - Z.of_nat (List.length (snd ap)) + k)%Z in
  if Z.ltb z 0 then OutOfFragment else Ok (Z.to_nat z).

Definition anon_named (prefix: string) (ap: anon) (position: nat) (k: Z) : M pred :=
  fun st =>
    match domain_predicate st (fst ap) with
    | Ok d =>
        match anon_arity ap k with
        | Ok ar => predicate_ (prefix ++ join_positions (snd ap) ++ "_" ++ string_of_nat position ++ fst d) ar st
        | Raise e => (st, Raise e) | OutOfFragment => (st, OutOfFragment) | OutOfFuel => (st, OutOfFuel)
        end
    | Raise e => (st, Raise e) | OutOfFragment => (st, OutOfFragment) | OutOfFuel => (st, OutOfFuel)
    end.
Definition min_anon_predicate (ap: anon) (position: nat) : M pred := anon_named MIN_STR ap position 1.
Definition max_anon_predicate (ap: anon) (position: nat) : M pred := anon_named MAX_STR ap position 1.
Definition next_anon_predicate (ap: anon) (position: nat) : M pred := anon_named NEXT_STR ap position 2.
Definition dom_named_predicate (name: string) (arity: nat) : M pred := predicate_ (DOM_STR ++ name) arity.
Definition chain_pred (ap: anon) (position: nat) (maximum: bool) : M pred :=
  fun st =>
    match domain_predicate st (fst ap) with
    | Ok d =>
        match anon_arity ap 1 with
        | Ok ar =>
            predicate_ (CHAIN_STR ++ "_" ++ join_positions (snd ap) ++ "_" ++ string_of_nat position
                          ++ (if maximum then MAX_STR else MIN_STR) ++ fst d) ar st
        | Raise e => (st, Raise e) | OutOfFragment => (st, OutOfFragment) | OutOfFuel => (st, OutOfFuel)
        end
    | Raise e => (st, Raise e) | OutOfFragment => (st, OutOfFragment) | OutOfFuel => (st, OutOfFuel)
    end.

(* ================================================================================================ *)
(* __compute_nonstatic_predicates                                                                   *)
(* ================================================================================================ *)
(* first loop: predicates of choice / disjunctive heads *)
Definition choice_elem (ns: result (list pred)) (cond: condlit) : result (list pred) :=
  rbind ns (fun ns =>
  match literal_predicate all_signs (fst cond) with
  | [] => Raise "IndexError"                       (* list(literal_predicate(...))[0] *)
  | sp :: _ => Ok (padd (snd sp) ns)
  end).
Definition choice_preds_stmt (ns: result (list pred)) (stm: stmt) : result (list pred) :=
  rbind ns (fun ns =>
  match stm with
  | SRule _ (HDisj es) _ => fold_left choice_elem es (Ok ns)
  | SRule _ (HAgg _ es _) _ => fold_left choice_elem es (Ok ns)
  | SRule _ (HHeadAgg _ _ es _) _ =>
      Ok (fold_left (fun ns elem => padd_all (map snd (literal_predicate all_signs (fst (snd elem)))) ns) es ns)
  | _ => Ok ns
  end).

(* `for node in topological_sort(cycle_free_pdg): if any(pre in _not_static ...): add node` as a
   least fixpoint; only nodes of cycle_free_pdg (non-cyclic ones) are visited *)
Fixpoint propagate (fuel: nat) (g: list edge) (cyclic ns: list pred) : list pred :=
  match fuel with
  | 0 => ns
  | S f =>
      let ns' := fold_left (fun acc e =>
                              if andb (pmem (fst e) acc) (negb (pmem (snd e) cyclic)) then padd (snd e) acc else acc)
                           g ns in
      if Nat.eqb (List.length ns') (List.length ns) then ns else propagate f g cyclic ns'
  end.

(* returns (_not_static, _too_complex) *)
Definition compute_nonstatic_predicates (prg: list stmt) : result (list pred * list pred) :=
  rbind (fold_left choice_preds_stmt prg (Ok [])) (fun ns0 =>
  let graph := create_graph_from_prg prg all_signs in
  let tbl := reach_table graph in
  let nodes := graph_nodes graph in
  let sccs := filter (in_big_scc tbl) nodes in
  let loops := filter (selfloop graph) nodes in
  let cyclic := padd_all loops (padd_all sccs []) in
  let ns1 := padd_all loops (padd_all sccs ns0) in
  Ok (propagate (S (List.length nodes)) graph cyclic ns1, cyclic)).

(* ================================================================================================ *)
(* add_domain_rules / add_domain_rule / __compute_domains                                           *)
(* ================================================================================================ *)
Definition is_too_complex_syms (st: dstate) (syms: list term) : result bool :=
  any_r (fun t => rbind (sym_pred t) (fun p => Ok (pmem p (too_complex st)))) syms.
Definition is_too_complex (st: dstate) (cond: bodyelem) : result bool :=
  is_too_complex_syms st (symatoms_bodyelem cond).
Definition is_too_complex_head (st: dstate) (h: atom) : result bool :=
  is_too_complex_syms st (symatoms_atom h).

Definition is_dynamic_sum (st: dstate) (cond: bodyelem) : result bool :=
  match cond with
  | BCond _ _ => Ok false
  | BLit (Lit _ a) =>
      let elems : list (list term) :=
        match a with
        | ABodyAgg _ _ es _ => map (fun e => flat_map symatoms_lit (snd e)) es
        | AAgg _ es _ => map (fun e => symatoms_lit (fst e) ++ flat_map symatoms_lit (snd e)) es
        | _ => []
        end in
      any_r (fun t => rbind (sym_pred t) (fun p => Ok (negb (is_static st p)))) (List.concat elems)
  end.

Definition unbounded_head (pair: dr_entry) : result bool :=
  let '(h, condition) := pair in
  rbind (collect_bound_variables condition) (fun bound =>
  Ok (nonempty (sdiff (sof (vars_atom h)) bound))).

Definition too_complex_rule (st: dstate) (rule: dr_entry) : result bool :=
  orelse_r (unbounded_head rule) (fun _ =>
  orelse_r (is_too_complex_head st (fst rule)) (fun _ =>
  any_r (fun cond => orelse_r (is_too_complex st cond) (fun _ => is_dynamic_sum st cond)) (snd rule))).
Definition too_complex_rules (st: dstate) (pair: pred * list dr_entry) : result bool :=
  if is_static st (fst pair) then Ok true else any_r (too_complex_rule st) (snd pair).

Fixpoint filter_r {A} (f: A -> result bool) (l: list A) : result (list A) :=
  match l with
  | [] => Ok []
  | x :: r => rbind (f x) (fun b => rbind (filter_r f r) (fun r' => Ok (if b then x :: r' else r')))
  end.

Definition have_domain (st: dstate) (l: bodyelem) : bool :=
  forallb (fun t => match t with
                    | TFun n args _ => has_domain st (n, List.length args)
                    | _ => true
                    end) (symatoms_bodyelem l).

(* replace_domain on the symbol (the caller has checked that every symbol is a Function and has a domain) *)
Definition replace_domain (st: dstate) (t: term) : term :=
  match t with
  | TFun n args e =>
      match domain_predicate st (n, List.length args) with
      | Ok d => TFun (fst d) args e
      | _ => t
      end
  | _ => t
  end.

(* the body of `for pred, rules in domain_rules.items()` *)
Definition adr_step (st: dstate) (pr: pred * list dr_entry) : result dstate :=
  let '(p, rules) := pr in
  if ahas pred_eqb p (domains st) then Ok st
  else if negb (forallb (fun rule : dr_entry => forallb (have_domain st) (snd rule)) rules) then Ok st
  else if existsb (fun rule : dr_entry => existsb (fun c => negb (forallb is_fun (symatoms_bodyelem c))) (snd rule)) rules
       then Raise "AssertionError"           (* assert atom.symbol.ast_type == ASTType.Function *)
  else
    let new_rules := map (fun rule : dr_entry => (fst rule, map (map_sym_bodyelem (replace_domain st)) (snd rule))) rules in
    let st1 := set_domains st (domains st) (aset pred_eqb p new_rules (domain_rules st)) in
    match dom_named_predicate (fst p) (snd p) st1 with
    | (st2, Ok d) =>
        let st3 := set_domains st2 (aset pred_eqb p d (domains st2)) (domain_rules st2) in
        Ok (set_not_static st3 (padd p (not_static st3)))
    | (_, Raise k) => Raise k
    | (_, OutOfFragment) => OutOfFragment
    | (_, OutOfFuel) => OutOfFuel
    end.

Fixpoint adr_loop (fuel: nat) (st: dstate) (filtered: dr_map) : result dstate :=
  match fuel with
  | 0 => OutOfFuel
  | S f =>
      let num_domain_preds := List.length (domain_rules st) in
      rbind (fold_left (fun acc pr => rbind acc (fun st => adr_step st pr)) filtered (Ok st)) (fun st' =>
      if Nat.eqb (List.length (domain_rules st')) num_domain_preds then Ok st' else adr_loop f st' filtered)
  end.

Definition add_domain_rules (st: dstate) (drs: dr_map) : result dstate :=
  rbind (filter_r (fun x => rbind (too_complex_rules st x) (fun b => Ok (negb b))) drs) (fun filtered =>
  adr_loop (List.length filtered + 2) st filtered).

Definition add_domain_rule (st: dstate) (p: pred) (conditions: list dr_entry) : result dstate :=
  add_domain_rules (set_not_static st (padd p (not_static st))) [(p, conditions)].

Definition atom2pred (a: atom) : result pred :=
  match a with ASym t => sym_pred t | _ => Raise "AssertionError" end.

Definition lits2body (c: list lit) : list bodyelem := map BLit c.
Definition condlit_entry (body: list bodyelem) (e: condlit) : list dr_entry :=
  match e with
  | (Lit NoSign (ASym t), c) => [(ASym t, lits2body c ++ body)]
  | _ => []
  end.
(* the (atom, conditions) pairs one rule contributes, in order *)
Definition rule_entries (h: head) (body: list bodyelem) : list dr_entry :=
  match h with
  | HLit (Lit NoSign (ASym t)) => [(ASym t, body)]
  | HLit _ => []
  | HDisj es => flat_map (condlit_entry body) es
  | HHeadAgg _ _ es _ => flat_map (fun e => condlit_entry body (snd e)) es
  | HAgg _ es _ => flat_map (condlit_entry body) es
  | HTheory _ => []
  end.

Definition collect_domain_rules (prg: list stmt) : result dr_map :=
  fold_left (fun acc stm =>
               match stm with
               | SRule _ h body =>
                   fold_left (fun acc (e: dr_entry) =>
                                rbind acc (fun m => rbind (atom2pred (fst e)) (fun p => Ok (dd_append p e m))))
                             (rule_entries h body) acc
               | _ => acc
               end) prg (Ok []).

Definition compute_domains (st: dstate) (prg: list stmt) : result dstate :=
  rbind (collect_domain_rules prg) (add_domain_rules st).

(* DomainPredicates.__init__ *)
Definition dp_init (un: unames) (prg: list stmt) : result dstate :=
  if negb (dep_in_fragment prg) then OutOfFragment else
  rbind (compute_nonstatic_predicates prg) (fun r =>
  compute_domains (mk_dstate un (fst r) [] [] (snd r) [] []) prg).

(* ================================================================================================ *)
(* create_domain                                                                                    *)
(* ================================================================================================ *)
Definition loc_line : nat := 1.
Definition mk_rule (h: lit) (b: list bodyelem) : stmt := SRule loc_line (HLit h) b.

(* [key for key, value in self.domains.items() if value == dom_pred] *)
Definition orig_preds (st: dstate) (d: pred) : list pred :=
  map fst (filter (fun kv => pred_eqb (snd kv) d) (domains st)).

Fixpoint create_domain (fuel: nat) (p: pred) : M (list stmt) :=
  match fuel with
  | 0 => mlift OutOfFuel
  | S f =>
    fun st =>
    if pmem p (created_domain st) then (st, Ok [])
    else
      let st := set_created st (padd p (created_domain st)) in
      if negb (has_domain st p) then (st, Raise "RuntimeError")
      else if is_static st p then (st, Ok [])
      else
        match alookup pred_eqb p (domain_rules st) with
        | None => (st, Raise "RuntimeError")
        | Some rules =>
            (* __create_domain_for_condition *)
            let for_condition (node: bodyelem) : M (list stmt) :=
              mconcat (fun symbol : term =>
                         mbind (mlift (sym_pred symbol)) (fun dom_pred =>
                         fun st' =>
                           match orig_preds st' dom_pred with
                           | o :: _ => create_domain f o st'
                           | [] => (st', Ok [])
                           end))
                      (symatoms_bodyelem node) in
            mconcat (fun rule : dr_entry =>
                       let '(h, condition) := rule in
                       mbind (fun st' => (st', domain_predicate st' p)) (fun d =>
                       mbind (mlift (match h with
                                     | ASym (TFun _ args _) => Ok args
                                     | _ => Raise "AttributeError"
                                     end)) (fun args =>
                       let newatom := ASym (TFun (fst d) args false) in
                       mbind (mconcat for_condition condition) (fun pre =>
                       mret (pre ++ [mk_rule (Lit NoSign newatom) condition])))))
                    rules st
        end
  end.
(* every call that passes the first test adds a new predicate to created_domain; recursive calls
   are on keys of `domains` *)
Definition create_domain_top (p: pred) : M (list stmt) :=
  fun st => create_domain (List.length (domains st) + 3) p st.

(* ================================================================================================ *)
(* _create_projected_lit, chains                                                                    *)
(* ================================================================================================ *)
Definition vmap := list (nat * term).
Definition vmap_get (i: nat) (m: vmap) : option term := alookup Nat.eqb i m.
(* a | b *)
Definition vmap_or (a b: vmap) : vmap := b ++ a.
(* dict(enumerate(vars_)) *)
Definition var_map (vars_: list term) : vmap := combine (seq 0 (List.length vars_)) vars_.

Definition create_projected_lit (p: pred) (variables: vmap) (s: sign) : lit :=
  Lit s (ASym (TFun (fst p)
                 (map (fun i => match vmap_get i variables with Some v => v | None => TVar "_" end) (seq 0 (snd p)))
                 false)).

Definition nmem (i: nat) (l: list nat) : bool := existsb (Nat.eqb i) l.
Definition gvar (i: nat) : term := TVar ("G" ++ string_of_nat i).
Definition global_positions (ap: anon) : list nat :=
  filter (fun i => negb (nmem i (snd ap))) (seq 0 (snd (fst ap))).
Definition var_global_map (ap: anon) : vmap := map (fun i => (i, gvar i)) (global_positions ap).
Definition var_global_flat (ap: anon) : list term := map gvar (global_positions ap).

Definition create_chain_pred_for_annotated_pred (ap: anon) (position: nat) (maximum: bool) : M (list stmt) :=
  let p := fst ap in
  if negb (nmem position (snd ap)) then mraise "AssertionError" else
  let var_p := TVar "P" in
  let var_n := TVar "N" in
  let gmap := var_global_map ap in
  let gflat := var_global_flat ap in
  mbind (next_anon_predicate ap position) (fun next_pred =>
  mbind (chain_pred ap position maximum) (fun chain_p =>
  let r1 := mk_rule (create_projected_lit chain_p (var_map (gflat ++ [var_p])) NoSign)
                    [BLit (create_projected_lit p (vmap_or gmap [(position, var_p)]) NoSign)] in
  let prev_agg := if maximum then var_p else var_n in
  let next_agg := if maximum then var_n else var_p in
  let r2 := mk_rule (create_projected_lit chain_p (var_map (gflat ++ [prev_agg])) NoSign)
                    [BLit (create_projected_lit chain_p (var_map (gflat ++ [next_agg])) NoSign);
                     BLit (create_projected_lit next_pred (var_map (gflat ++ [var_p; var_n])) NoSign)] in
  mret [r1; r2])).

Definition create_next_pred_for_annotated_pred (ap: anon) (position: nat) : M (list stmt) :=
  let p := fst ap in
  fun st =>
  if negb (has_domain st p) then (st, Raise "RuntimeError")
  else if Nat.leb (snd p) position then (st, Raise "RuntimeError")
  else
  (mbind (min_anon_predicate ap position) (fun min_pred =>
   mbind (max_anon_predicate ap position) (fun max_pred =>
   mbind (next_anon_predicate ap position) (fun next_pred =>
   mbind (fun st' => (st', domain_predicate st' p)) (fun dom_pred =>
   let var_x := TVar "X" in
   let var_l := TVar "L" in
   let var_p := TVar "P" in
   let var_n := TVar "N" in
   let var_b := TVar "B" in
   let gflat := var_global_flat ap in
   let gmap := var_global_map ap in
   let agg_body (f: aggfun) : list bodyelem :=
     [BLit (Lit NoSign (ABodyAgg (Some (CEq, var_x)) f
                          [([var_l], [create_projected_lit dom_pred (vmap_or gmap [(position, var_l)]) NoSign])]
                          None));
      BLit (create_projected_lit dom_pred gmap NoSign)] in
   let r_min := mk_rule (create_projected_lit min_pred (var_map (gflat ++ [var_x])) NoSign) (agg_body FMin) in
   let r_max := mk_rule (create_projected_lit max_pred (var_map (gflat ++ [var_x])) NoSign) (agg_body FMax) in
   let tail : list bodyelem :=
     [BLit (create_projected_lit dom_pred (vmap_or gmap [(position, var_n)]) NoSign);
      BLit (Lit NoSign (ACmp var_n [(CGt, var_p)]));
      BCond (create_projected_lit dom_pred (vmap_or gmap [(position, var_b)]) Neg)
            [create_projected_lit dom_pred (vmap_or gmap [(position, var_b)]) NoSign;
             Lit NoSign (ACmp var_p [(CLt, var_b); (CLt, var_n)])]] in
   let next_head := create_projected_lit next_pred (var_map (gflat ++ [var_p; var_n])) NoSign in
   let r_next1 := mk_rule next_head
                    (BLit (create_projected_lit min_pred (var_map (gflat ++ [var_p])) NoSign) :: tail) in
   let r_next2 := mk_rule next_head
                    (BLit (create_projected_lit next_pred (var_map (gflat ++ [TVar "_"; var_p])) NoSign) :: tail) in
   mret [r_min; r_max; r_next1; r_next2]))))) st.

(* ================================================================================================ *)
(* histories of calls on one object (used by vlib/fam_dependency.py)                                *)
(* ================================================================================================ *)
Inductive dreq :=
| QIsStatic (p: pred)
| QHasDomain (p: pred)
| QDomainPredicate (p: pred)
| QMin (ap: anon) (position: nat)
| QMax (ap: anon) (position: nat)
| QNext (ap: anon) (position: nat)
| QDomNamed (name: string) (arity: nat)
| QChainPred (ap: anon) (position: nat) (maximum: bool)
| QCreateDomain (p: pred)
| QCreateChain (ap: anon) (position: nat) (maximum: bool)
| QCreateNext (ap: anon) (position: nat)
| QAddDomainRule (p: pred) (conditions: list dr_entry)
| QState.

Inductive dresp :=
| PBool (b: bool)
| PPred (r: result pred)
| PRules (r: result (list stmt))
| PUnit (r: result unit)
(* _not_static, _too_complex, domains, domain_rules, created_domain, unique_names.predicates *)
| PState (ns tc: list pred) (doms: list (pred * pred)) (drules: dr_map) (created known_: list pred).

Definition run_req (st: dstate) (q: dreq) : dstate * dresp :=
  match q with
  | QIsStatic p => (st, PBool (is_static st p))
  | QHasDomain p => (st, PBool (has_domain st p))
  | QDomainPredicate p => (st, PPred (domain_predicate st p))
  | QMin ap pos => let '(st', r) := min_anon_predicate ap pos st in (st', PPred r)
  | QMax ap pos => let '(st', r) := max_anon_predicate ap pos st in (st', PPred r)
  | QNext ap pos => let '(st', r) := next_anon_predicate ap pos st in (st', PPred r)
  | QDomNamed n a => let '(st', r) := dom_named_predicate n a st in (st', PPred r)
  | QChainPred ap pos mx => let '(st', r) := chain_pred ap pos mx st in (st', PPred r)
  | QCreateDomain p => let '(st', r) := create_domain_top p st in (st', PRules r)
  | QCreateChain ap pos mx => let '(st', r) := create_chain_pred_for_annotated_pred ap pos mx st in (st', PRules r)
  | QCreateNext ap pos => let '(st', r) := create_next_pred_for_annotated_pred ap pos st in (st', PRules r)
  | QAddDomainRule p conds =>
      match add_domain_rule st p conds with
      | Ok st' => (st', PUnit (Ok tt))
      | Raise k => (st, PUnit (Raise k))        (* the family stops a history after a raising add_domain_rule *)
      | OutOfFragment => (st, PUnit OutOfFragment)
      | OutOfFuel => (st, PUnit OutOfFuel)
      end
  | QState => (st, PState (not_static st) (too_complex st) (domains st) (domain_rules st) (created_domain st)
                          (known (unique_names st)))
  end.
Fixpoint run_reqs (st: dstate) (qs: list dreq) : list dresp :=
  match qs with
  | [] => []
  | q :: r => let '(st', x) := run_req st q in x :: run_reqs st' r
  end.

Definition dr_entry_eqb (a b: dr_entry) : bool :=
  andb (atom_eqb (fst a) (fst b)) (list_eqb bodyelem_eqb (snd a) (snd b)).
Definition dresp_eqb (model obs: dresp) : bool :=
  match model, obs with
  | PBool a, PBool b => Bool.eqb a b
  | PPred a, PPred b => result_eqb pred_eqb a b
  | PRules a, PRules b => result_eqb (list_eqb stmt_eqb) a b
  | PUnit a, PUnit b => result_eqb (fun _ _ => true) a b
  | PState ns tc d dr c k, PState ns' tc' d' dr' c' k' =>
      andb (pset_eqb ns ns') (andb (pset_eqb tc tc')
        (andb (list_eqb (pair_eqb pred_eqb pred_eqb) d d')
          (andb (list_eqb (pair_eqb pred_eqb (list_eqb dr_entry_eqb)) dr dr')
            (andb (pset_eqb c c') (pset_eqb k k')))))
  | _, _ => false
  end.

(* observed: None = the constructor returned, Some k = it raised k; then the responses *)
Definition chk_dep (prg: list stmt) (ins: list pred) (obs_init: option string) (qs: list dreq) (obs: list dresp) : bool :=
  match dp_init (init_names prg ins) prg with
  | OutOfFragment => true
  | Ok st => match obs_init with None => list_eqb dresp_eqb (run_reqs st qs) obs | Some _ => false end
  | Raise k => match obs_init with Some k' => String.eqb k k' | None => false end
  | OutOfFuel => false
  end.
Definition dep_fragment (prg: list stmt) (ins: list pred) : bool :=
  in_fragment (dp_init (init_names prg ins) prg).

(* _create_graph_from_prg: edges and nodes as sets *)
Definition eset_eqb (a b: list edge) : bool :=
  andb (forallb (fun e => emem e b) a) (forallb (fun e => emem e a) b).
Definition chk_graph (prg: list stmt) (signs: list sign) (obs_edges: list edge) (obs_nodes: list pred) : bool :=
  if negb (dep_in_fragment prg) then true else
  let g := create_graph_from_prg prg signs in
  andb (eset_eqb g obs_edges) (pset_eqb (graph_nodes g) obs_nodes).

(* RuleDependency histories *)
Inductive rdreq := RGetBodies (p: pred) | RGetRules (p: pred) | RGetHeads | RGetUse (p: pred).
Inductive rdresp := RBodies (l: list (list bodyelem)) | RStmts (l: list stmt) | RPreds (l: list pred).
Definition rd_run_req (st: rdstate) (q: rdreq) : rdstate * rdresp :=
  match q with
  | RGetBodies p => let '(v, st') := rd_get_bodies st p in (st', RBodies v)
  | RGetRules p => let '(v, st') := rd_get_rules_that_derive st p in (st', RStmts v)
  | RGetHeads => (st, RPreds (rd_get_headderivable_predicates st))
  | RGetUse p => let '(v, st') := rd_get_statements_that_use st p in (st', RStmts v)
  end.
Fixpoint rd_run_reqs (st: rdstate) (qs: list rdreq) : list rdresp :=
  match qs with
  | [] => []
  | q :: r => let '(st', x) := rd_run_req st q in x :: rd_run_reqs st' r
  end.
Definition rdresp_eqb (a b: rdresp) : bool :=
  match a, b with
  | RBodies x, RBodies y => list_eqb (list_eqb bodyelem_eqb) x y
  | RStmts x, RStmts y => list_eqb stmt_eqb x y
  | RPreds x, RPreds y => list_eqb pred_eqb x y
  | _, _ => false
  end.
Definition chk_rule_dependency (prg: list stmt) (qs: list rdreq) (obs: list rdresp) : bool :=
  list_eqb rdresp_eqb (rd_run_reqs (rd_init prg) qs) obs.
