(* Model of ngo/api.py optimize: preprocess; loop { enabled passes in the order GENERATED from api.py
   (Gen/Cli.pass_order); exline_arithmetic; until the program no longer changes }; postprocess.
   Passes that are not modelled yet make the model answer OutOfFragment when they are enabled. *)
From Coq Require Import List String ZArith Bool.
From NGO Require Import Syntax.Ast Gen.Cli.
From NGO Require Model.Normalize Model.CleanupExecute Model.UnusedExecute Model.ProjectionExecute.
From NGO Require Model.Symmetry Model.MinMax Model.Inline Model.Duplication.
Import ListNotations.
Open Scope string_scope. Open Scope list_scope.

Definition run_pass (cls: string) (inputs outputs: list pred) (prg: list stmt) : result (list stmt) :=
  if String.eqb cls "CleanupTranslator" then CleanupExecute.execute inputs prg
  else if String.eqb cls "UnusedTranslator" then UnusedExecute.execute prg inputs outputs prg
  else if String.eqb cls "ProjectionTranslator" then ProjectionExecute.execute prg inputs prg
  else if String.eqb cls "LiteralDuplicationTranslator" then Duplication.execute prg inputs
  else if String.eqb cls "SymmetryTranslator" then Symmetry.execute prg inputs prg
  else if String.eqb cls "MinMaxAggregator" then MinMax.mm_execute prg inputs prg
  else if String.eqb cls "InlineTranslator" then Inline.run_execute prg inputs outputs prg
  (* SumAggregator depends on the iteration order of a Python set (an extra input of Model/SumChains.v) and
     MathSimplification on sympy: not composed here *)
  else OutOfFragment.

(* one iteration of the while-loop body: the `if <flag>:` blocks in source order, then exline_arithmetic *)
Definition one_round (enabled: list string) (inputs outputs: list pred) (prg: list stmt) : result (list stmt) :=
  rbind (fold_left (fun acc p =>
           rbind acc (fun cur => if mem String.eqb (fst p) enabled then run_pass (fst (snd p)) inputs outputs cur else Ok cur))
         pass_order (Ok prg))
        Normalize.exline_arithmetic.

Fixpoint optimize_loop (fuel: nat) (enabled: list string) (inputs outputs: list pred) (input_: list stmt) : result (list stmt) :=
  match fuel with
  | 0 => OutOfFuel
  | S fuel' =>
      rbind (one_round enabled inputs outputs input_) (fun new =>
      if list_eqb stmt_eqb new input_ then Ok new else optimize_loop fuel' enabled inputs outputs new)
  end.

Definition optimize_fuel (fuel: nat) (enabled: list string) (inputs outputs: list pred) (prg: list stmt) : result (list stmt) :=
  rbind (Normalize.preprocess prg) (fun input_ =>
  rbind (optimize_loop fuel enabled inputs outputs input_) Normalize.postprocess).

Definition optimize (enabled: list string) (inputs outputs: list pred) (prg: list stmt) : result (list stmt) :=
  optimize_fuel 30 enabled inputs outputs prg.
