(* Executable model of ngo/normalize.py (all 464 lines) and of the part of clingo's C++ `AST.unpool()`
   (default arguments other=True, condition=True) that `normalize` relies on.  No proofs here.

   The small pure pieces (comparison2comparisonlist, split_cmp_lit, normalize_operators_condition,
   normalize_guards, convert_count_elems) live in Model/NormalizeCore.v (Link/NormalizeSem.v proves
   their semantics); `UniqueVariables` is Model/Globals.v; `global_vars_inside_body` is Model/Binding.v.

   Conventions
   * Python exceptions are `Raise "<class>"`.  Python `while` loops / recursion whose termination is
     not structural are recursion on fuel (the wrappers compute enough fuel).
   * `transform_ast(x, K, f)` (clingo.ast.Transformer) calls f on the *outermost* nodes of kind K in
     visiting order (attributes in declaration order) and does not descend into the result.
   * Opaque parts of the mirror: theory atoms (`ATheory text`, `HTheory text`) and statements other than
     rules / minimize / #show (`SOther kind text`).  Wherever the Python would have to look inside
     such a text (variables of a theory atom, pools or body aggregates inside `#external ... : body.`)
     the model answers `OutOfFragment`; where the text is left alone the model is exact. *)
From Coq Require Import List String Ascii ZArith Bool Arith.
From NGO Require Import Syntax.Ast Syntax.Order Gen.Tables Gen.Names Model.Traverse Model.Globals
     Model.NormalizeCore.
From NGO Require Model.Binding.
Import ListNotations.
Open Scope string_scope. Open Scope list_scope.

(* ====================================================================================== *)
(* generic helpers                                                                        *)
(* ====================================================================================== *)
Fixpoint has_char (c: ascii) (s: string) : bool :=
  match s with
  | EmptyString => false
  | String a r => if Ascii.eqb a c then true else has_char c r
  end.
Definition semicolon : ascii := ";"%char.
(* Does the printed form of an opaque node contain a `;` whose innermost enclosing bracket is a
   parenthesis, i.e. can it contain a pool?  (`;` between body literals, aggregate or theory elements
   is at depth 0 or directly inside braces / square brackets; string literals are skipped.) *)
Fixpoint pool_scan (s: string) (stack: list bool) (instr esc: bool) : bool :=
  match s with
  | EmptyString => false
  | String c r =>
      if instr then
        (if esc then pool_scan r stack true false
         else if Ascii.eqb c "\"%char then pool_scan r stack true true
         else if Ascii.eqb c """"%char then pool_scan r stack false false
         else pool_scan r stack true false)
      else if Ascii.eqb c """"%char then pool_scan r stack true false
      else if Ascii.eqb c "("%char then pool_scan r (true :: stack) false false
      else if orb (Ascii.eqb c "{"%char) (Ascii.eqb c "["%char) then pool_scan r (false :: stack) false false
      else if orb (Ascii.eqb c ")"%char) (orb (Ascii.eqb c "}"%char) (Ascii.eqb c "]"%char))
           then pool_scan r (tl stack) false false
      else if Ascii.eqb c semicolon then
        match stack with true :: _ => true | _ => pool_scan r stack false false end
      else pool_scan r stack false false
  end.
Definition may_have_pool (text: string) : bool := pool_scan text [] false false.
Definition lbrace : ascii := "{"%char.

(* sequencing over lists of results *)
Fixpoint rmap {A B} (f: A -> result B) (l: list A) : result (list B) :=
  match l with
  | [] => Ok []
  | x :: r => rbind (f x) (fun y => rbind (rmap f r) (fun ys => Ok (y :: ys)))
  end.

Fixpoint map2 {A B C} (f: A -> B -> C) (xs: list A) (ys: list B) : list C :=
  match xs, ys with
  | x :: xs', y :: ys' => f x y :: map2 f xs' ys'
  | _, _ => []
  end.

(* ---------- outermost nodes of a kind (collect_ast) ---------- *)
Definition is_interval (t: term) : bool := match t with TInterval _ _ => true | _ => false end.
Definition is_pool (t: term) : bool := match t with TPool _ => true | _ => false end.
Definition is_anon (t: term) : bool := match t with TVar x => String.eqb x "_" | _ => false end.

Fixpoint outer_term (p: term -> bool) (t: term) : list term :=
  if p t then [t] else
  match t with
  | TVar _ => []
  | TSym _ => []
  | TUn _ a => outer_term p a
  | TBin _ l r => outer_term p l ++ outer_term p r
  | TInterval l r => outer_term p l ++ outer_term p r
  | TFun _ args _ => flat_map (outer_term p) args
  | TPool alts => flat_map (outer_term p) alts
  end.
Definition outer_guard (p: term -> bool) (g: guard) := outer_term p (snd g).
Definition outer_oguard (p: term -> bool) (g: option guard) := match g with Some g => outer_guard p g | None => [] end.
Fixpoint outer_atom (p: term -> bool) (a: atom) : list term :=
  match a with
  | ASym t => outer_term p t
  | ACmp t gs => outer_term p t ++ flat_map (outer_guard p) gs
  | ABool _ => []
  | ABodyAgg lg _ es rg =>
      outer_oguard p lg
      ++ flat_map (fun e => flat_map (outer_term p) (fst e) ++ flat_map (outer_lit p) (snd e)) es
      ++ outer_oguard p rg
  | AAgg lg es rg =>
      outer_oguard p lg
      ++ flat_map (fun e => outer_lit p (fst e) ++ flat_map (outer_lit p) (snd e)) es
      ++ outer_oguard p rg
  | ATheory _ => []
  end
with outer_lit (p: term -> bool) (l: lit) : list term := match l with Lit _ a => outer_atom p a end.

Definition nonempty {A} (l: list A) : bool := match l with [] => false | _ => true end.
Definition has_pool_lit (l: lit) : bool := nonempty (outer_lit is_pool l).
Definition has_interval_lit (l: lit) : bool := nonempty (outer_lit is_interval l).

(* ---------- transform_ast(x, "Variable", f) for a pure f ---------- *)
Fixpoint vmap_term (f: string -> term) (t: term) : term :=
  match t with
  | TVar x => f x
  | TSym _ => t
  | TUn o a => TUn o (vmap_term f a)
  | TBin o l r => TBin o (vmap_term f l) (vmap_term f r)
  | TInterval l r => TInterval (vmap_term f l) (vmap_term f r)
  | TFun n args e => TFun n (map (vmap_term f) args) e
  | TPool alts => TPool (map (vmap_term f) alts)
  end.
Definition vmap_guard (f: string -> term) (g: guard) : guard := (fst g, vmap_term f (snd g)).
Definition vmap_oguard (f: string -> term) (g: option guard) : option guard := option_map (vmap_guard f) g.
Fixpoint vmap_atom (f: string -> term) (a: atom) : atom :=
  match a with
  | ASym t => ASym (vmap_term f t)
  | ACmp t gs => ACmp (vmap_term f t) (map (vmap_guard f) gs)
  | ABool _ => a
  | ABodyAgg lg fn es rg =>
      ABodyAgg (vmap_oguard f lg) fn
               (map (fun e => (map (vmap_term f) (fst e), map (vmap_lit f) (snd e))) es)
               (vmap_oguard f rg)
  | AAgg lg es rg =>
      AAgg (vmap_oguard f lg)
           (map (fun e => (vmap_lit f (fst e), map (vmap_lit f) (snd e))) es)
           (vmap_oguard f rg)
  | ATheory _ => a     (* opaque: every caller guards against theory atoms *)
  end
with vmap_lit (f: string -> term) (l: lit) : lit := match l with Lit s a => Lit s (vmap_atom f a) end.
Definition vmap_condlit (f: string -> term) (c: condlit) : condlit := (vmap_lit f (fst c), map (vmap_lit f) (snd c)).
Definition vmap_bodyelem (f: string -> term) (b: bodyelem) : bodyelem :=
  match b with
  | BLit l => BLit (vmap_lit f l)
  | BCond l c => BCond (vmap_lit f l) (map (vmap_lit f) c)
  end.
Definition vmap_head (f: string -> term) (h: head) : head :=
  match h with
  | HLit l => HLit (vmap_lit f l)
  | HDisj es => HDisj (map (vmap_condlit f) es)
  | HAgg lg es rg => HAgg (vmap_oguard f lg) (map (vmap_condlit f) es) (vmap_oguard f rg)
  | HHeadAgg lg fn es rg =>
      HHeadAgg (vmap_oguard f lg) fn
               (map (fun e => (map (vmap_term f) (fst e), vmap_condlit f (snd e))) es) (vmap_oguard f rg)
  | HTheory _ => h
  end.

(* inline_replace_stm: `orig == var` on Variable nodes compares the names *)
Definition subst1 (var: string) (new: term) (x: string) : term := if String.eqb x var then new else TVar x.
Definition inline_replace_term (var: string) (new: term) (t: term) : term := vmap_term (subst1 var new) t.
Definition inline_replace_lit (var: string) (new: term) (l: lit) : lit := vmap_lit (subst1 var new) l.
Definition inline_replace_bodyelem (var: string) (new: term) (b: bodyelem) : bodyelem := vmap_bodyelem (subst1 var new) b.
Definition inline_replace_head (var: string) (new: term) (h: head) : head := vmap_head (subst1 var new) h.

(* ---------- replacing the outermost nodes of a kind, in visiting order, by given terms ---------- *)
Section Fill.
  Context (p: term -> bool).
  Section FillList.
    Context {A: Type} (f: A -> list term -> A * list term).
    Fixpoint fill_list (xs: list A) (ns: list term) : list A * list term :=
      match xs with
      | [] => ([], ns)
      | x :: xs' =>
          let '(x', n1) := f x ns in
          let '(r, n2) := fill_list xs' n1 in
          (x' :: r, n2)
      end.
  End FillList.
  Fixpoint fill_term (t: term) (ns: list term) {struct t} : term * list term :=
    if p t then match ns with n :: r => (n, r) | [] => (t, []) end else
    match t with
    | TVar _ => (t, ns)
    | TSym _ => (t, ns)
    | TUn o a => let '(a', n1) := fill_term a ns in (TUn o a', n1)
    | TBin o l r =>
        let '(l', n1) := fill_term l ns in
        let '(r', n2) := fill_term r n1 in (TBin o l' r', n2)
    | TInterval l r =>
        let '(l', n1) := fill_term l ns in
        let '(r', n2) := fill_term r n1 in (TInterval l' r', n2)
    | TFun n args e => let '(args', n1) := fill_list fill_term args ns in (TFun n args' e, n1)
    | TPool alts => let '(alts', n1) := fill_list fill_term alts ns in (TPool alts', n1)
    end.
  Definition fill_guard (g: guard) (ns: list term) : guard * list term :=
    let '(t, n1) := fill_term (snd g) ns in ((fst g, t), n1).
  (* only for the literals that can occur inside an old-style aggregate / a condition *)
  Definition fill_lit (l: lit) (ns: list term) : lit * list term :=
    match l with
    | Lit s (ASym t) => let '(t', n1) := fill_term t ns in (Lit s (ASym t'), n1)
    | Lit s (ACmp t gs) =>
        let '(t', n1) := fill_term t ns in
        let '(gs', n2) := fill_list fill_guard gs n1 in (Lit s (ACmp t' gs'), n2)
    | _ => (l, ns)
    end.
End Fill.

Definition simple_lit_b (l: lit) : bool :=
  match l with Lit _ (ASym _) | Lit _ (ACmp _ _) | Lit _ (ABool _) => true | _ => false end.

(* ====================================================================================== *)
(* UniqueVariables as explicit state                                                      *)
(* ====================================================================================== *)
(* `UniqueVariables(stm)` is built eagerly by the Python but only *used* when a fresh variable is
   needed; the state is the (lazily failing) list self._allvars: it is OutOfFragment when the
   statement has variables hidden in opaque text (Globals.init_vars) *)
Definition uvstate := result (list string).

(* n successive calls of unique_vars.make_unique(AUX_VAR) *)
Definition fresh_auxs (st: uvstate) (n: nat) : result (uvstate * list string) :=
  match n with
  | 0 => Ok (st, [])
  | _ => rbind st (fun av =>
         rbind (run_make_unique av (repeat AUX_VAR_name n)) (fun r => Ok (Ok (fst r), snd r)))
  end.
Definition fresh_aux (st: uvstate) : result (uvstate * string) :=
  rbind st (fun av => rbind (make_unique av AUX_VAR_name) (fun r => Ok (Ok (snd r), fst r))).

Definition assign (v: string) (t: term) : lit := Lit NoSign (ACmp (TVar v) [(CEq, t)]).

(* ====================================================================================== *)
(* expand_comparisons / normalize_operators  (normalize.py:39-91)                          *)
(* ====================================================================================== *)
Definition normalize_operators (literals: list bodyelem) : list bodyelem :=
  flat_map (fun lit =>
    match lit with
    | BCond l c => [BCond l (normalize_operators_condition c)]
    | BLit (Lit sg (ACmp t gs)) => map BLit (split_cmp_lit sg t gs)
    | BLit (Lit sg (ABodyAgg lg f es rg)) =>
        [BLit (Lit sg (ABodyAgg lg f (map (fun e => (fst e, normalize_operators_condition (snd e))) es) rg))]
    | _ => [lit]
    end) literals.

Definition expand_comparisons (stm: stmt) : stmt :=
  match stm with
  | SRule ln h b => SRule ln h (normalize_operators b)
  | SMin ln w p ts b => SMin ln w p ts (normalize_operators b)
  | _ => stm
  end.

(* ====================================================================================== *)
(* replace_old_aggregates  (normalize.py:94-158, 200-226)                                  *)
(* ====================================================================================== *)
Definition convert_count_to_sum (lg: option guard) (es: list belem) (rg: option guard) : atom :=
  ABodyAgg lg FSumPlus (convert_count_elems es) rg.

Definition anon_fun : term := TFun "anon__ngo" [] false.
Definition replace_anon (symbol: term) : term :=
  vmap_term (fun x => if String.eqb x "_" then anon_fun else TVar x) symbol.

(* _exline_interval on one element (literal, condition) *)
Definition exline_interval (e: condlit) (st: uvstate) : result (condlit * uvstate) :=
  let '(l, cs) := e in
  let ivs := outer_lit is_interval l ++ flat_map (outer_lit is_interval) cs in
  rbind (fresh_auxs st (List.length ivs)) (fun '(st', names) =>
  let '(l', n1) := fill_lit is_interval l (map TVar names) in
  let '(cs', _) := fill_list (fill_lit is_interval) cs n1 in
  Ok ((l', cs' ++ map2 assign names ivs), st')).

(* the loop `for old_elem in agg.elements` with its two pieces of state *)
Fixpoint convert_old_elems (es: list condlit) (comparison_counter: Z) (st: uvstate)
  : result (list belem * uvstate) :=
  match es with
  | [] => Ok ([], st)
  | old_elem :: rest =>
      let '(Lit _ atom0) := fst old_elem in               (* atom = old_elem.literal.atom *)
      if negb (forallb simple_lit_b (snd old_elem)) then OutOfFragment else
      match atom0 with
      | ACmp _ _ | ABool _ | ASym _ =>
          rbind (exline_interval old_elem st) (fun '((new_literal, cond), st1) =>
          let '(Lit sg _) := new_literal in
          let terms := [TSym (SNum 1); TSym (SNum (nm sg))] in
          match atom0 with
          | ACmp _ _ =>
              let terms := terms ++ [TSym (SNum comparison_counter)]
                                 ++ map TVar (sort_by String.compare (vars_atom atom0)) in
              rbind (convert_old_elems rest (comparison_counter + 1)%Z st1) (fun '(r, st2) =>
              Ok ((terms, new_literal :: cond) :: r, st2))
          | ABool b =>
              let terms := terms ++ [TSym (SNum (bm b))] in
              rbind (convert_old_elems rest (comparison_counter + 1)%Z st1) (fun '(r, st2) =>
              Ok ((terms, new_literal :: cond) :: r, st2))
          | _ =>
              rbind (match sg with
                     | Neg => Ok (new_literal, st1)
                     | _ =>  (* replace_with_new: every `_` of the literal gets a fresh AUX *)
                         rbind (fresh_auxs st1 (List.length (outer_lit is_anon new_literal))) (fun '(st2, names) =>
                         Ok (fst (fill_lit is_anon new_literal (map TVar names)), st2))
                     end) (fun '(new_literal, st2) =>
              let symbol := match new_literal with Lit _ (ASym s) => s | _ => TSym SInf (* unreachable *) end in
              let terms := terms ++ [replace_anon symbol] in
              rbind (convert_old_elems rest comparison_counter st2) (fun '(r, st3) =>
              Ok ((terms, new_literal :: cond) :: r, st3)))
          end)
      | _ => Raise "AssertionError"                      (* assert False, f"Invalid atom {atom}" *)
      end
  end.

Definition convert_old_agg (lg: option guard) (es: list condlit) (rg: option guard) (st: uvstate)
  : result (atom * uvstate) :=
  rbind (convert_old_elems es 2%Z st) (fun '(new_elements, st') =>
  Ok (ABodyAgg lg FSum new_elements rg, st')).

Fixpoint replace_old_body (body: list bodyelem) (st: uvstate) : result (list bodyelem) :=
  match body with
  | [] => Ok []
  | blit :: rest =>
      match blit with
      | BLit (Lit sg (AAgg lg es rg)) =>
          rbind (convert_old_agg lg es rg st) (fun '(a, st') =>
          rbind (replace_old_body rest st') (fun r => Ok (BLit (Lit sg a) :: r)))
      | BLit (Lit sg (ABodyAgg lg FCount es rg)) =>
          rbind (replace_old_body rest st) (fun r => Ok (BLit (Lit sg (convert_count_to_sum lg es rg)) :: r))
      | _ => rbind (replace_old_body rest st) (fun r => Ok (blit :: r))
      end
  end.

Definition replace_old_aggregates_stm (stm: stmt) : result stmt :=
  match stm with
  | SRule ln h b => rbind (replace_old_body b (init_vars stm)) (fun b' => Ok (SRule ln h b'))
  | SMin ln w p ts b => rbind (replace_old_body b (init_vars stm)) (fun b' => Ok (SMin ln w p ts b'))
  | _ => Ok stm
  end.
Definition replace_old_aggregates (prg: list stmt) : result (list stmt) := rmap replace_old_aggregates_stm prg.

(* ====================================================================================== *)
(* remove_unecessary_bounds  (normalize.py:161-197)                                        *)
(* ====================================================================================== *)
(* transform_ast(stm, "BodyAggregate", replace): body aggregates only occur as atoms of body literals *)
Definition remove_bounds_bodyelem (b: bodyelem) : bodyelem :=
  match b with
  | BLit (Lit sg (ABodyAgg lg f es rg)) =>
      let '(lg', rg') := normalize_guards lg rg in BLit (Lit sg (ABodyAgg lg' f es rg'))
  | _ => b
  end.
(* statements with a body that the mirror keeps as text *)
Definition other_has_body (kind: string) : bool :=
  orb (String.eqb kind "ASTType.External") (orb (String.eqb kind "ASTType.Edge")
      (orb (String.eqb kind "ASTType.Heuristic") (String.eqb kind "ASTType.ProjectAtom"))).
Definition remove_bounds_stm (stm: stmt) : result stmt :=
  match stm with
  | SRule ln h b => Ok (SRule ln h (map remove_bounds_bodyelem b))
  | SMin ln w p ts b => Ok (SMin ln w p ts (map remove_bounds_bodyelem b))
  | SShowTerm t b => Ok (SShowTerm t (map remove_bounds_bodyelem b))
  | SShowSig _ _ _ => Ok stm
  | SOther kind text => if andb (other_has_body kind) (has_char lbrace text) then OutOfFragment else Ok stm
  end.
Definition remove_unecessary_bounds (prg: list stmt) : result (list stmt) := rmap remove_bounds_stm prg.

(* ====================================================================================== *)
(* clingo's AST.unpool(other=True, condition=True)                                         *)
(* ====================================================================================== *)
(* Measured against clingo 5.8.2:
   - a Pool node is the concatenation of the alternatives of its arguments;
   - a node with several attributes is the cross product of the alternatives of its attributes with
     the *first* attribute as the outermost loop (`cross2`);
   - a node with a sequence attribute (arguments, guards, tuple terms, condition, body) is the cross
     product of the alternatives of its items in the peculiar order of `vec_cross` (for items with at
     most two alternatives: the first item varies fastest; p((1;2;3),(4;5;6)) gives
     (1,4) (2,4) (3,4) (1,5) (1,6) (2,5) (2,6) (3,5) (3,6));
   - elements of aggregates (body, head, old-style) are replaced by all their alternatives (same set);
   - a conditional literal in a body or in a disjunction is first replaced by one *sibling* per
     alternative of its condition; afterwards the literal part of every sibling is unpooled on its own
     as one more dimension of the body / disjunction cross product (so `a :- p(1;2) : q(3;4).` gives four
     rules, among them `a :- p(2):q(3); p(1):q(4).`);
   - statements: body is the outermost loop, then (rule) head / (minimize) weight, priority, terms /
     (#show) term. *)
(* measured: every further item of the sequence first extends the rows built so far by its *first*
   alternative (in place) and then appends, row by row, the copies extended by its other alternatives *)
Definition cross_step {A} (res: list (list A)) (x: list A) : list (list A) :=
  match x with
  | [] => []
  | x0 :: xr => map (fun r => r ++ [x0]) res ++ flat_map (fun r => map (fun y => r ++ [y]) xr) res
  end.
Definition vec_cross {A} (pools: list (list A)) : list (list A) := fold_left cross_step pools [[]].
Definition cross2 {A B C} (f: A -> B -> C) (xs: list A) (ys: list B) : list C :=
  flat_map (fun x => map (f x) ys) xs.

Fixpoint unpool_term (t: term) : list term :=
  match t with
  | TVar _ => [t]
  | TSym _ => [t]
  | TUn o a => map (TUn o) (unpool_term a)
  | TBin o l r => cross2 (TBin o) (unpool_term l) (unpool_term r)
  | TInterval l r => cross2 TInterval (unpool_term l) (unpool_term r)
  | TFun n args e => map (fun args' => TFun n args' e) (vec_cross (map unpool_term args))
  | TPool alts => flat_map unpool_term alts
  end.
Definition unpool_terms (ts: list term) : list (list term) := vec_cross (map unpool_term ts).
Definition unpool_guard (g: guard) : list guard := map (fun t => (fst g, t)) (unpool_term (snd g)).
Definition unpool_oguard (g: option guard) : list (option guard) :=
  match g with None => [None] | Some g => map Some (unpool_guard g) end.

Fixpoint unpool_atom (a: atom) : list atom :=
  match a with
  | ASym t => map ASym (unpool_term t)
  | ACmp t gs => cross2 ACmp (unpool_term t) (vec_cross (map unpool_guard gs))
  | ABool _ => [a]
  | ABodyAgg lg f es rg =>
      let es' := flat_map (fun e => cross2 pair (unpool_terms (fst e)) (vec_cross (map unpool_lit (snd e)))) es in
      cross2 (fun l r => ABodyAgg l f es' r) (unpool_oguard lg) (unpool_oguard rg)
  | AAgg lg es rg =>
      let es' := flat_map (fun e => cross2 pair (unpool_lit (fst e)) (vec_cross (map unpool_lit (snd e)))) es in
      cross2 (fun l r => AAgg l es' r) (unpool_oguard lg) (unpool_oguard rg)
  | ATheory _ => [a]        (* see unpool_opaque *)
  end
with unpool_lit (l: lit) : list lit := match l with Lit s a => map (Lit s) (unpool_atom a) end.
Definition unpool_lits (ls: list lit) : list (list lit) := vec_cross (map unpool_lit ls).
Definition unpool_condlit (c: condlit) : list condlit := cross2 pair (unpool_lit (fst c)) (unpool_lits (snd c)).

(* conditional literals of bodies and disjunctions *)
Definition condlit_siblings (c: condlit) : list condlit := map (fun c' => (fst c, c')) (unpool_lits (snd c)).
Definition condlit_alternatives (c: condlit) : list condlit := map (fun l' => (l', snd c)) (unpool_lit (fst c)).

Definition body_siblings (b: bodyelem) : list bodyelem :=
  match b with
  | BLit _ => [b]
  | BCond l c => map (fun x => BCond (fst x) (snd x)) (condlit_siblings (l, c))
  end.
Definition bodyelem_alternatives (b: bodyelem) : list bodyelem :=
  match b with
  | BLit l => map BLit (unpool_lit l)
  | BCond l c => map (fun x => BCond (fst x) (snd x)) (condlit_alternatives (l, c))
  end.
Definition unpool_body (b: list bodyelem) : list (list bodyelem) :=
  vec_cross (map bodyelem_alternatives (flat_map body_siblings b)).

Definition unpool_head (h: head) : list head :=
  match h with
  | HLit l => map HLit (unpool_lit l)
  | HDisj es => map HDisj (vec_cross (map condlit_alternatives (flat_map condlit_siblings es)))
  | HAgg lg es rg =>
      let es' := flat_map unpool_condlit es in
      cross2 (fun l r => HAgg l es' r) (unpool_oguard lg) (unpool_oguard rg)
  | HHeadAgg lg f es rg =>
      let es' := flat_map (fun e => cross2 pair (unpool_terms (fst e)) (unpool_condlit (snd e))) es in
      cross2 (fun l r => HHeadAgg l f es' r) (unpool_oguard lg) (unpool_oguard rg)
  | HTheory _ => [h]
  end.

(* pools hidden in opaque text: theory atoms (name arguments, element conditions) and the statements
   with a body that the mirror keeps as text (see may_have_pool). *)
Definition theory_text_of_bodyelem (b: bodyelem) : list string :=
  match b with BLit (Lit _ (ATheory t)) => [t] | _ => [] end.
Definition unpool_opaque (s: stmt) : bool :=
  match s with
  | SRule _ h b =>
      orb (match h with
           | HTheory t => may_have_pool t
           | HLit (Lit _ (ATheory t)) => may_have_pool t
           | _ => false end)
          (existsb (may_have_pool) (flat_map theory_text_of_bodyelem b))
  | SMin _ _ _ _ b => existsb (may_have_pool) (flat_map theory_text_of_bodyelem b)
  | SShowTerm _ b => existsb (may_have_pool) (flat_map theory_text_of_bodyelem b)
  | SShowSig _ _ _ => false
  | SOther kind text => andb (other_has_body kind) (may_have_pool text)
  end.

Definition unpool_stmt (s: stmt) : result (list stmt) :=
  if unpool_opaque s then OutOfFragment else
  Ok (match s with
      | SRule ln h b => cross2 (fun b' h' => SRule ln h' b') (unpool_body b) (unpool_head h)
      | SMin ln w p ts b =>
          flat_map (fun b' =>
          flat_map (fun w' =>
          flat_map (fun p' =>
          map (fun ts' => SMin ln w' p' ts' b') (unpool_terms ts)) (unpool_term p)) (unpool_term w)) (unpool_body b)
      | SShowTerm t b => cross2 (fun b' t' => SShowTerm t' b') (unpool_body b) (unpool_term t)
      | _ => [s]
      end).
Definition unpool_prg (prg: list stmt) : result (list stmt) :=
  rbind (rmap unpool_stmt prg) (fun l => Ok (List.concat l)).

(* ====================================================================================== *)
(* normalize / preprocess  (normalize.py:303-321, 457-459)                                 *)
(* ====================================================================================== *)
Definition normalize (prg: list stmt) : result (list stmt) :=
  rbind (replace_old_aggregates prg) (fun prg =>
  rbind (remove_unecessary_bounds prg) (fun prg =>
  unpool_prg (map expand_comparisons prg))).
Definition preprocess (prg: list stmt) : result (list stmt) := normalize prg.

(* ====================================================================================== *)
(* exline_arithmetic  (normalize.py:229-300)                                               *)
(* ====================================================================================== *)
Definition exline_term (t: term) (st: uvstate) : result (term * list lit * uvstate) :=
  match t with
  | TBin _ _ _ | TUn _ _ =>
      rbind (fresh_aux st) (fun '(st', uv) => Ok (TVar uv, [assign uv t], st'))
  | _ => Ok (t, [], st)
  end.

Fixpoint exline_terms (ts: list term) (st: uvstate) : result (list term * list lit * uvstate) :=
  match ts with
  | [] => Ok ([], [], st)
  | t :: r =>
      rbind (exline_term t st) (fun '(t', c1, st1) =>
      rbind (exline_terms r st1) (fun '(r', c2, st2) => Ok (t' :: r', c1 ++ c2, st2)))
  end.

(* is_predicate(lit) and not collect_ast(lit, "Pool") *)
Definition exline_literal (l: lit) (st: uvstate) : result (lit * list lit * uvstate) :=
  match l with
  | Lit sg (ASym (TFun n args e)) =>
      if has_pool_lit l then Ok (l, [], st) else
      rbind (exline_terms args st) (fun '(args', ret, st') => Ok (Lit sg (ASym (TFun n args' e)), ret, st'))
  | _ => Ok (l, [], st)
  end.

(* a condition: new_condition.extend([new_lit] + body) *)
Fixpoint exline_condition (cs: list lit) (st: uvstate) : result (list lit * uvstate) :=
  match cs with
  | [] => Ok ([], st)
  | c :: r =>
      rbind (exline_literal c st) (fun '(c', body, st1) =>
      rbind (exline_condition r st1) (fun '(r', st2) => Ok (c' :: body ++ r', st2)))
  end.

Fixpoint exline_body (b: list bodyelem) (st: uvstate) : result (list bodyelem * uvstate) :=
  match b with
  | [] => Ok ([], st)
  | BLit l :: r =>
      rbind (exline_literal l st) (fun '(l', body, st1) =>
      rbind (exline_body r st1) (fun '(r', st2) => Ok (BLit l' :: map BLit body ++ r', st2)))
  | BCond l c :: r =>
      rbind (exline_condition c st) (fun '(c', st1) =>
      rbind (exline_body r st1) (fun '(r', st2) => Ok (BCond l c' :: r', st2)))
  end.

(* exline_minimize_terms: works with its *own* UniqueVariables(stm) object `uv` *)
Definition exline_minimize_terms (stm: stmt) : result stmt :=
  match stm with
  | SMin ln w p ts b =>
      let uv := init_vars stm in
      rbind (exline_term w uv) (fun '(w', c1, uv1) =>
      rbind (exline_term p uv1) (fun '(p', c2, uv2) =>
      rbind (exline_terms ts uv2) (fun '(ts', c3, _) =>
      Ok (SMin ln w' p' ts' (b ++ map BLit c1 ++ map BLit c2 ++ map BLit c3)))))
  | _ => Ok stm
  end.

Definition exline_arithmetic_rule (stm: stmt) : result stmt :=
  let unique_vars := init_vars stm in
  match stm with
  | SRule ln h b =>
      rbind (match h with
             | HLit l => rbind (exline_literal l unique_vars) (fun '(l', body, st) => Ok (HLit l', body, st))
             | _ => Ok (h, [], unique_vars)
             end) (fun '(new_head, body, st) =>
      rbind (exline_body (b ++ map BLit body) st) (fun '(new_body, _) =>
      Ok (SRule ln new_head new_body)))
  | SMin _ _ _ _ _ =>
      rbind (exline_minimize_terms stm) (fun stm' =>
      match stm' with
      | SMin ln w p ts b =>
          (* the body is processed with `unique_vars`, which was initialised from the *original*
             statement and has not seen the variables handed out by exline_minimize_terms *)
          rbind (exline_body b unique_vars) (fun '(new_body, _) => Ok (SMin ln w p ts new_body))
      | _ => Ok stm'
      end)
  | _ => Ok stm
  end.

Definition exline_arithmetic (prg: list stmt) : result (list stmt) := rmap exline_arithmetic_rule prg.

(* ====================================================================================== *)
(* inline_arithmetic  (normalize.py:324-454)                                               *)
(* ====================================================================================== *)
Definition is_eq_form (o: cmp) (sg: sign) : bool :=
  orb (andb (cmp_eqb o CEq) (sign_eqb sg NoSign)) (andb (cmp_eqb o CNe) (sign_eqb sg Neg)).

(* _equality *)
Definition equality (l: lit) : option (string * term) :=
  match l with
  | Lit sg (ACmp t gs) =>
      if orb (has_pool_lit l) (has_interval_lit l) then None else
      match t, gs with
      | TVar x, [(o, rest)] =>
          if is_eq_form o sg then (if String.eqb x "_" then None else Some (x, rest)) else None
      | _, [(o, TVar y)] =>
          if is_eq_form o sg then (if String.eqb y "_" then None else Some (y, t)) else None
      | _, _ => None
      end
  | _ => None
  end.
Definition equality_bodyelem (b: bodyelem) : option (string * term) :=
  match b with BLit l => equality l | BCond _ _ => None end.

Definition count_name (x: string) (l: list string) : nat := List.length (filter (String.eqb x) l).

(* the `for blit in stm.body: ... break` search of inline_rule *)
Fixpoint find_inline (allvars: list string) (body: list bodyelem) : option (bodyelem * string * term) :=
  match body with
  | [] => None
  | blit :: r =>
      match equality_bodyelem blit with
      | Some (var, rest) => if Nat.ltb 1 (count_name var allvars) then Some (blit, var, rest) else find_inline allvars r
      | None => find_inline allvars r
      end
  end.

Definition stmt_body (s: stmt) : list bodyelem :=
  match s with SRule _ _ b => b | SMin _ _ _ _ b => b | SShowTerm _ b => b | _ => [] end.

Fixpoint inline_rule_fuel (fuel: nat) (stm: stmt) : result stmt :=
  match stm with
  | SRule _ _ _ | SMin _ _ _ _ _ =>
      let body := stmt_body stm in
      if negb (existsb (fun b => match equality_bodyelem b with Some _ => true | None => false end) body)
      then Ok stm
      else if opaque_vars stm then OutOfFragment     (* collect_ast(stm, "Variable") looks into theory atoms *)
      else
      match find_inline (vars_stmt stm) body with
      | None => Ok stm
      | Some (blit, var, rest) =>
          match fuel with
          | 0 => OutOfFuel
          | S fuel' =>
              let new_body := map (inline_replace_bodyelem var rest)
                                  (filter (fun x => negb (bodyelem_eqb x blit)) body) in
              match stm with
              | SRule ln h _ => inline_rule_fuel fuel' (SRule ln (inline_replace_head var rest h) new_body)
              | SMin ln w p ts _ =>
                  inline_rule_fuel fuel' (SMin ln (inline_replace_term var rest w) (inline_replace_term var rest p)
                                               (map (inline_replace_term var rest) ts) new_body)
              | _ => Ok stm
              end
          end
      end
  | _ => Ok stm
  end.
Definition inline_rule (stm: stmt) : result stmt := inline_rule_fuel (S (List.length (stmt_body stm))) stm.

(* first condition literal that is an equality on a non-global variable *)
Fixpoint find_local_equality (globals: list string) (cs: list lit) : option (lit * string * term) :=
  match cs with
  | [] => None
  | c :: r =>
      match equality c with
      | Some (var, rest) => if Globals.smem var globals then find_local_equality globals r else Some (c, var, rest)
      | None => find_local_equality globals r
      end
  end.
Fixpoint find_elem_equality (globals: list string) (es: list belem) : option (belem * lit * string * term) :=
  match es with
  | [] => None
  | elem :: r =>
      match find_local_equality globals (snd elem) with
      | Some (c, var, rest) => Some (elem, c, var, rest)
      | None => find_elem_equality globals r
      end
  end.

Fixpoint inline_aggregate_fuel (fuel: nat) (stm: bodyelem) (globals: list string) : result bodyelem :=
  match stm with
  | BLit (Lit sg (ABodyAgg lg f es rg)) =>
      match find_elem_equality globals es with
      | None => Ok stm
      | Some (elem, c, var, rest) =>
          match fuel with
          | 0 => OutOfFuel
          | S fuel' =>
              let new_conds := map (inline_replace_lit var rest) (filter (fun x => negb (lit_eqb x c)) (snd elem)) in
              let new_terms := map (inline_replace_term var rest) (fst elem) in
              let new_elements := map (fun e => if belem_eqb e elem then (new_terms, new_conds) else e) es in
              inline_aggregate_fuel fuel' (BLit (Lit sg (ABodyAgg lg f new_elements rg))) globals
          end
      end
  | _ => Ok stm
  end.
Definition agg_fuel (stm: bodyelem) : nat :=
  match stm with
  | BLit (Lit _ (ABodyAgg _ _ es _)) => S (List.length (flat_map (fun e => snd e) es))
  | BCond _ c => S (List.length c)
  | _ => 1
  end.
Definition inline_aggregate (stm: bodyelem) (globals: list string) : result bodyelem :=
  inline_aggregate_fuel (agg_fuel stm) stm globals.

Fixpoint inline_conditional_fuel (fuel: nat) (stm: bodyelem) (globals: list string) : result bodyelem :=
  match stm with
  | BCond l cs =>
      match find_local_equality globals cs with
      | None => Ok stm
      | Some (c, var, rest) =>
          match fuel with
          | 0 => OutOfFuel
          | S fuel' =>
              let new_conds := map (inline_replace_lit var rest) (filter (fun x => negb (lit_eqb x c)) cs) in
              let new_lit := inline_replace_lit var rest l in
              inline_conditional_fuel fuel' (BCond new_lit new_conds) globals
          end
      end
  | _ => Ok stm
  end.
Definition inline_conditional (stm: bodyelem) (globals: list string) : result bodyelem :=
  inline_conditional_fuel (agg_fuel stm) stm globals.

(* stm.update(body=[f(blit, global_vars_inside_body(stm.body)) for blit in stm.body]):
   global_vars_inside_body is evaluated once per body literal (so not at all for an empty body) and
   may raise AssertionError on a body with an old-style aggregate *)
Section WithGlobals.
  Context (gvars : list bodyelem -> result (list string)).
  Definition inline_body_with (f: bodyelem -> list string -> result bodyelem) (body: list bodyelem)
    : result (list bodyelem) :=
    match body with
    | [] => Ok []
    | _ => rbind (gvars body) (fun g => rmap (fun blit => f blit g) body)
    end.
  Definition inline_aggregates_with (stm: stmt) : result stmt :=
    match stm with
    | SRule ln h b => rbind (inline_body_with inline_aggregate b) (fun b' => Ok (SRule ln h b'))
    | SMin ln w p ts b => rbind (inline_body_with inline_aggregate b) (fun b' => Ok (SMin ln w p ts b'))
    | _ => Ok stm
    end.
  Definition inline_conditionals_with (stm: stmt) : result stmt :=
    match stm with
    | SRule ln h b => rbind (inline_body_with inline_conditional b) (fun b' => Ok (SRule ln h b'))
    | SMin ln w p ts b => rbind (inline_body_with inline_conditional b) (fun b' => Ok (SMin ln w p ts b'))
    | _ => Ok stm
    end.
End WithGlobals.

Definition inline_aggregates : stmt -> result stmt := inline_aggregates_with Binding.global_vars_inside_body.
Definition inline_conditionals : stmt -> result stmt := inline_conditionals_with Binding.global_vars_inside_body.

Definition inline_arithmetic_stm (stm: stmt) : result stmt :=
  rbind (inline_rule stm) (fun stm => rbind (inline_aggregates stm) inline_conditionals).
Definition inline_arithmetic (prg: list stmt) : result (list stmt) := rmap inline_arithmetic_stm prg.
Definition postprocess (prg: list stmt) : result (list stmt) := inline_arithmetic prg.

(* ====================================================================================== *)
(* ngo.api.optimize with every trait switched off                                          *)
(* ====================================================================================== *)
(* while True: old = deepcopy(input_); input_ = exline_arithmetic(input_); if input_ == old: break *)
Fixpoint exline_loop (fuel: nat) (input_: list stmt) : result (list stmt) :=
  match fuel with
  | 0 => OutOfFuel
  | S fuel' =>
      rbind (exline_arithmetic input_) (fun new =>
      if list_eqb stmt_eqb new input_ then Ok new else exline_loop fuel' new)
  end.
Definition optimize_none_fuel (fuel: nat) (prg: list stmt) : result (list stmt) :=
  rbind (preprocess prg) (fun input_ => rbind (exline_loop fuel input_) postprocess).
Definition optimize_none (prg: list stmt) : result (list stmt) := optimize_none_fuel 8 prg.
