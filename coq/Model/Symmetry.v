(* Executable model of ngo/symmetry.py (SymmetryTranslator with its inner classes Symmetry and
   SymmetryBundle) and of replace_simple_assignments (ngo/utils/ast.py:684-768).  No proofs here.

   Conventions
   * The object state of SymmetryTranslator is the state of its DomainPredicates object
     (Dependency.dstate); `self.unique_names` is the very UniqueNames object stored inside it
     (field `unique_names`), so `new_auxpredicate` updates that field.  `self.rule_dependency` is
     never read.  Everything that can change the state lives in the monad Dependency.M
     (state is kept when an exception is raised).
   * Bodies and aggregate conditions are both `list bodyelem` for the analysis functions (a condition
     is mapped with BLit).  The `rest` argument of largest_symmetric_group in the aggregate case is
     `list(elem.terms) + list(stm.body)`: the *terms* in that list are inert (AST == between a term and
     a literal is False, and the binding analysis skips everything that is neither a Literal nor a
     ConditionalLiteral), so the model passes `stm.body` only.
   * Python sets of AST nodes (`set(equality)`, `_remove_lits`, `_add_lits`, `collect`) are duplicate
     free lists; their hash order is never observable: they are only sorted, tested for membership /
     intersection, or used to remove first occurrences from a list (which commutes).
   * `nx.connected_components(g)` of the index graph in _crosscheck: components come in the order of
     their smallest index (nodes are inserted in ascending order of index1); a component is a Python
     set of small ints, iterated in ascending order as long as all indices are < 8 (no hash
     collisions in the initial table).  More than 8 potential equalities: OutOfFragment.
   * connected components of the variable-equality graph of replace_simple_assignments: only
     `sorted(cc)[0]` (smallest variable name) is used.
   * Generators are lists; `list(self.largest_symmetric_group(..))` builds all bundles (with their
     side effects) before the first one is applied.
   * Theory atoms are opaque in the mirror: a statement with a theory atom and a simple variable
     equality is OutOfFragment for replace_simple_assignments; DomainPredicates answers
     OutOfFragment for programs with pools / theory atoms in rules (Dependency.dp_init). *)
From Coq Require Import List String ZArith Bool Arith.
From NGO Require Import Syntax.Ast Syntax.Order Gen.Names Model.Traverse Model.Corr Model.Globals Model.Binding
                        Model.Dependency.
From NGO Require Model.Projection Model.Normalize.
Import ListNotations.
Open Scope string_scope. Open Scope list_scope.

(* ================================================================================================ *)
(* generic helpers                                                                                  *)
(* ================================================================================================ *)
Definition lmem (x: lit) (l: list lit) : bool := existsb (lit_eqb x) l.
Definition ladd (x: lit) (l: list lit) : list lit := if lmem x l then l else l ++ [x].
Definition ladd_all (xs: list lit) (l: list lit) : list lit := fold_left (fun acc x => ladd x acc) xs l.
(* sorted(set(xs)) *)
Definition sorted_set (xs: list lit) : list lit := sort_lits (ladd_all xs []).
Definition tmem (x: term) (l: list term) : bool := existsb (term_eqb x) l.
Definition tadd (x: term) (l: list term) : list term := if tmem x l then l else l ++ [x].
Definition bmem (x: bodyelem) (l: list bodyelem) : bool := existsb (bodyelem_eqb x) l.
Definition nmem_ (i: nat) (l: list nat) : bool := existsb (Nat.eqb i) l.
(* a & b on sets of variable names *)
Definition vinter (a b: vset) : vset := filter (fun x => Binding.smem x b) a.

(* list.remove(x): drops the first element equal to x; None = ValueError *)
Fixpoint remove_first {A} (e: A -> A -> bool) (x: A) (l: list A) : option (list A) :=
  match l with
  | [] => None
  | y :: r => if e y x then Some r else option_map (cons y) (remove_first e x r)
  end.
Definition remove_lit (l: lit) (body: list bodyelem) : result (list bodyelem) :=
  match remove_first bodyelem_eqb (BLit l) body with Some r => Ok r | None => Raise "ValueError" end.
Definition remove_lits_from (ls: list lit) (body: list bodyelem) : result (list bodyelem) :=
  fold_left (fun acc l => rbind acc (remove_lit l)) ls (Ok body).

Fixpoint mmap {A B} (f: A -> M B) (l: list A) : M (list B) :=
  match l with
  | [] => mret []
  | x :: r => mbind (f x) (fun y => mbind (mmap f r) (fun ys => mret (y :: ys)))
  end.
Fixpoint mfoldl {A B} (f: B -> A -> M B) (l: list A) (b: B) : M B :=
  match l with
  | [] => mret b
  | x :: r => mbind (f b x) (fun b' => mfoldl f r b')
  end.

(* ================================================================================================ *)
(* replace_simple_assignments (utils/ast.py)                                                        *)
(* ================================================================================================ *)
(* var1 = var2  or  not var1 != var2 ; only guards[0] is inspected *)
Definition simple_equality_lit (l: lit) : option (string * string) :=
  match l with
  | Lit s (ACmp (TVar x) ((op, TVar y) :: _)) =>
      if orb (andb (sign_eqb s NoSign) (cmp_eqb op CEq)) (andb (sign_eqb s Neg) (cmp_eqb op CNe))
      then Some (x, y) else None
  | _ => None
  end.
Definition simple_equality (b: bodyelem) : option (string * string) :=
  match b with BLit l => simple_equality_lit l | BCond _ _ => None end.
Definition is_some {A} (o: option A) : bool := match o with Some _ => true | None => false end.
(* _get_simple_equalities *)
Definition get_simple_equalities (lits: list bodyelem) : list bodyelem := filter (fun b => is_some (simple_equality b)) lits.
Definition get_simple_equalities_lits (lits: list lit) : list lit := filter (fun l => is_some (simple_equality_lit l)) lits.

Definition vedge := (string * string)%type.
Definition eq_edges (eqs: list bodyelem) : list vedge :=
  flat_map (fun b => match simple_equality b with Some e => [e] | None => [] end) eqs.
Definition eq_edges_lits (eqs: list lit) : list vedge :=
  flat_map (fun l => match simple_equality_lit l with Some e => [e] | None => [] end) eqs.

(* the connected component of v in the undirected graph `edges` *)
Definition touch (s: vset) (e: vedge) : list string :=
  if orb (Binding.smem (fst e) s) (Binding.smem (snd e) s) then [fst e; snd e] else [].
Fixpoint cc_closure (fuel: nat) (edges: list vedge) (s: vset) : vset :=
  match fuel with
  | 0 => s
  | S f =>
      let s' := supdate s (flat_map (touch s) edges) in
      if Nat.eqb (List.length s') (List.length s) then s else cc_closure f edges s'
  end.
(* _replace(uniques, var): sorted(cc)[0] of the component that contains var, else var *)
Definition representative (edges: list vedge) (v: string) : string :=
  match sort_strings_as_vars (cc_closure (S (List.length edges)) edges [v]) with
  | x :: _ => x
  | [] => v
  end.
Definition replace_fn (edges: list vedge) (x: string) : term := TVar (representative edges x).

(* replace_simple_assignments_aggregate: per element, with the equalities of its own condition *)
Definition rsa_element (e: belem) : belem :=
  let eqs := get_simple_equalities_lits (snd e) in
  let edges := eq_edges_lits eqs in
  let new_condition := filter (fun c => negb (lmem c eqs)) (snd e) in
  (map (Normalize.vmap_term (replace_fn edges)) (fst e), map (Normalize.vmap_lit (replace_fn edges)) new_condition).
Definition rsa_aggregate (b: bodyelem) : bodyelem :=
  match b with
  | BLit (Lit s (ABodyAgg lg f es rg)) => BLit (Lit s (ABodyAgg lg f (map rsa_element es) rg))
  | _ => b
  end.

Definition has_inner_equalities (b: bodyelem) : bool :=
  match b with
  | BLit (Lit _ (ABodyAgg _ _ es _)) => existsb (fun e => Binding.nonempty (get_simple_equalities_lits (snd e))) es
  | _ => false
  end.

Definition rsa_body (body: list bodyelem) : list vedge * list bodyelem :=
  let eqs := get_simple_equalities body in
  let aux_body := map rsa_aggregate (filter (fun l => negb (bmem l eqs)) body) in
  let edges := eq_edges eqs in
  (edges, map (Normalize.vmap_bodyelem (replace_fn edges)) aux_body).

Definition replace_simple_assignments (stm: stmt) : result stmt :=
  match stm with
  | SRule line h body =>
      if andb (opaque_vars stm)
              (orb (Binding.nonempty (get_simple_equalities body)) (existsb has_inner_equalities body))
      then OutOfFragment else
      let '(edges, aux_body) := rsa_body body in
      Ok (SRule line (Normalize.vmap_head (replace_fn edges) h) aux_body)
  | SMin line w p ts body =>
      if andb (opaque_vars stm)
              (orb (Binding.nonempty (get_simple_equalities body)) (existsb has_inner_equalities body))
      then OutOfFragment else
      let '(edges, aux_body) := rsa_body body in
      let f := Normalize.vmap_term (replace_fn edges) in
      Ok (SMin line (f w) (f p) (map f ts) aux_body)
  | _ => Ok stm
  end.

(* ================================================================================================ *)
(* SymmetryTranslator: analysis                                                                     *)
(* ================================================================================================ *)
(* Inequalities = dict[ComparisonOperator, list[(lit, var1, var2)]], insertion ordered *)
Definition ineq := (lit * term * term)%type.
Definition ineqs := list (cmp * list ineq).
Fixpoint ineq_append (op: cmp) (x: ineq) (m: ineqs) : ineqs :=
  match m with
  | [] => [(op, [x])]
  | (op', xs) :: r => if cmp_eqb op op' then (op', xs ++ [x]) :: r else (op', xs) :: ineq_append op x r
  end.

(* _inequalities *)
Definition inequalities (body: list bodyelem) : result ineqs :=
  fold_left (fun acc b =>
    rbind acc (fun m =>
    match b with
    | BLit (Lit s (ACmp t gs)) =>
        match gs with
        | [(op, gt)] =>                                   (* assert len(lit.atom.guards) == 1 *)
            match t, gt with
            | TVar _, TVar _ =>
                let l := Lit s (ACmp t gs) in
                if orb (andb (sign_eqb s NoSign) (cmp_eqb op CNe)) (andb (sign_eqb s Neg) (cmp_eqb op CEq))
                then Ok (ineq_append CNe (l, t, gt) m)
                else if orb (andb (sign_eqb s NoSign) (cmp_eqb op CLt)) (andb (sign_eqb s Neg) (cmp_eqb op CGt))
                then Ok (ineq_append CLt (l, t, gt) m)
                else if orb (andb (sign_eqb s NoSign) (cmp_eqb op CGt)) (andb (sign_eqb s Neg) (cmp_eqb op CLt))
                then Ok (ineq_append CLt (l, gt, t) m)
                else Ok m
            | _, _ => Ok m
            end
        | _ => Raise "AssertionError"
        end
    | _ => Ok m
    end)) body (Ok []).

(* _unequal: the first entry (dict order, then list order) that relates lhs and rhs *)
Definition unequal (lhs rhs: term) (iq: ineqs) : option (cmp * lit) :=
  let hit (op: cmp) (x: ineq) : option (cmp * lit) :=
    let '(l, var1, var2) := x in
    if orb (andb (term_eqb lhs var1) (term_eqb rhs var2)) (andb (term_eqb lhs var2) (term_eqb rhs var1))
    then Some (op, l) else None in
  (fix outer (m: ineqs) : option (cmp * lit) :=
     match m with
     | [] => None
     | (op, xs) :: r =>
         match (fix inner (xs: list ineq) : option (cmp * lit) :=
                  match xs with
                  | [] => None
                  | x :: xs' => match hit op x with Some y => Some y | None => inner xs' end
                  end) xs with
         | Some y => Some y
         | None => outer r
         end
     end) iq.

(* is_predicate *)
Definition predicate_lit (b: bodyelem) : list lit :=
  match b with
  | BLit (Lit s (ASym (TFun n args e))) => [Lit s (ASym (TFun n args e))]
  | _ => []
  end.
Definition lit_args (l: lit) : list term := match l with Lit _ (ASym (TFun _ args _)) => args | _ => [] end.
Definition lit_pred (l: lit) : pred := match l with Lit _ (ASym (TFun n args _)) => (n, List.length args) | _ => ("", 0) end.

(* _all_equal_symbols: yields tuple(sorted(subset)) *)
Definition all_equal_symbols (body: list bodyelem) : list (list lit) :=
  let symbols := flat_map predicate_lit body in
  flat_map (fun subset : list lit =>
              match subset with
              | x :: _ :: _ =>
                  if forallb (fun l => pred_eqb (lit_pred l) (lit_pred x)) subset then [sort_lits subset] else []
              | _ => []
              end) (Projection.largest_subset symbols).

(* dict[int, list[AST]] (a defaultdict(list)), insertion ordered *)
Definition posmap := list (nat * list lit).
Fixpoint pm_append (pos: nat) (l: lit) (m: posmap) : posmap :=
  match m with
  | [] => [(pos, [l])]
  | (p, ls) :: r => if Nat.eqb p pos then (p, ls ++ [l]) :: r else (p, ls) :: pm_append pos l r
  end.

(* Symmetry(literals, strict_neq, nstrict_neq); also an entry of the three parallel lists
   potential_equalities / potential_strict_inequalities / potential_nstrict_inequalities
   (literals = sorted(set(equality))) *)
Record symmetry := mk_sym { sym_literals: list lit; strict_neq: posmap; nstrict_neq: posmap }.

Definition all_same (sides: list term) : bool :=
  match sides with [] => true | x :: r => forallb (term_eqb x) r end.

(* the `for pos, sides in enumerate(zip( *args))` loop: None = not fine *)
Definition used_inequalities (equality: list lit) (iq: ineqs) : option (list (cmp * lit * nat)) :=
  let argss := map lit_args equality in
  let arity := match argss with a :: _ => List.length a | [] => 0 end in
  (fix go (positions: list nat) : option (list (cmp * lit * nat)) :=
     match positions with
     | [] => Some []
     | pos :: r =>
         let sides := map (fun a => nth pos a (TVar "_")) argss in
         if all_same sides then go r else
         match (fix pairs (ps: list (list term)) : option (list (cmp * lit * nat)) :=
                  match ps with
                  | [] => Some []
                  | [lhs; rhs] :: ps' =>
                      match unequal lhs rhs iq with
                      | None => None
                      | Some (op, l) => option_map (cons (op, l, pos)) (pairs ps')
                      end
                  | _ :: ps' => pairs ps'
                  end) (Projection.combinations sides 2) with
         | None => None
         | Some us => option_map (app us) (go r)
         end
     end) (seq 0 arity).

Definition lsg_step (iq: ineqs) (acc: list symmetry) (equality: list lit) : list symmetry :=
  if existsb (fun pe => existsb (fun l => lmem l (sym_literals pe)) equality) acc then acc else
  match used_inequalities equality iq with
  | Some (u :: us) =>
      let strict := fold_left (fun m (x: cmp * lit * nat) =>
                                 if cmp_eqb (fst (fst x)) CNe then pm_append (snd x) (snd (fst x)) m else m) (u :: us) [] in
      let nstrict := fold_left (fun m (x: cmp * lit * nat) =>
                                  if cmp_eqb (fst (fst x)) CNe then m else pm_append (snd x) (snd (fst x)) m) (u :: us) [] in
      acc ++ [mk_sym (sorted_set equality) strict nstrict]
  | _ => acc
  end.

(* the potential equalities with their inequalities (first part of largest_symmetric_group) *)
Definition potential_equalities (body: list bodyelem) : result (list symmetry) :=
  rbind (inequalities body) (fun iq => Ok (fold_left (lsg_step iq) (all_equal_symbols body) [])).

(* ---------- _crosscheck ---------- *)
Definition uneq_map := list (nat * vset).
Definition uneq_get (i: nat) (m: uneq_map) : vset :=
  match alookup Nat.eqb i m with Some s => s | None => [] end.

(* one `for index in index_subset` step: (lits, used_variables, used_uneq_variables) *)
Definition crosscheck_index (pes: list symmetry) (acc: result (list bodyelem * vset * uneq_map)) (index: nat)
  : result (list bodyelem * vset * uneq_map) :=
  rbind acc (fun '(lits, used, uneq) =>
  match nth_error pes index with
  | None => Raise "IndexError"
  | Some pe =>
      rbind (remove_lits_from (sym_literals pe) lits) (fun lits1 =>
      let items := strict_neq pe ++ nstrict_neq pe in
      let lits2 := fold_left (fun ls (item: nat * list lit) =>
                                filter (fun x => negb (bmem x (map BLit (snd item)))) ls) items lits1 in
      let vs := flat_map (fun item : nat * list lit =>
                            flat_map (fun p => vars_term (nth (fst item) (lit_args p) (TSym SInf))) (sym_literals pe)) items in
      Ok (lits2, supdate used vs, uneq ++ [(index, supdate (uneq_get index uneq) vs)]))
  end).

(* connected components of the index graph: nodes ascending, edge iff the unequal variables intersect *)
Fixpoint comp_closure (fuel: nat) (nodes: list nat) (adj: nat -> nat -> bool) (s: list nat) : list nat :=
  match fuel with
  | 0 => s
  | S f =>
      let s' := filter (fun j => orb (nmem_ j s) (existsb (fun i => adj i j) s)) nodes in
      if Nat.eqb (List.length s') (List.length s) then s' else comp_closure f nodes adj s'
  end.
Fixpoint components (nodes todo: list nat) (adj: nat -> nat -> bool) (seen: list nat) : list (list nat) :=
  match todo with
  | [] => []
  | v :: r =>
      if nmem_ v seen then components nodes r adj seen
      else let c := comp_closure (S (List.length nodes)) nodes adj [v] in
           c :: components nodes r adj (seen ++ c)
  end.

Fixpoint crosscheck_loop (pes: list symmetry) (lits_param: list bodyelem) (global_vars: vset)
         (subsets: list (list nat)) : result (list (list symmetry)) :=
  match subsets with
  | [] => Ok []
  | index_subset :: subsets' =>
      rbind (fold_left (crosscheck_index pes) index_subset (Ok (lits_param, [], []))) (fun '(lits, used, uneq) =>
      rbind (global_vars_inside_body lits) (fun gv =>
      if Binding.nonempty (vinter (supdate gv global_vars) used) then crosscheck_loop pes lits_param global_vars subsets'
      else
        let adj (i j: nat) : bool :=
          andb (negb (Nat.eqb i j)) (Binding.nonempty (vinter (uneq_get i uneq) (uneq_get j uneq))) in
        Ok (map (fun cc => flat_map (fun i => match nth_error pes i with Some pe => [pe] | None => [] end) cc)
                (components index_subset index_subset adj []))))
  end.

Definition crosscheck (pes: list symmetry) (lits_param: list bodyelem) (global_vars: vset)
  : result (list (list symmetry)) :=
  if Nat.ltb 8 (List.length pes) then OutOfFragment else
  crosscheck_loop pes lits_param global_vars (Projection.largest_subset (seq 0 (List.length pes))).

(* largest_symmetric_group without the construction of the bundles: the symmetry lists handed to the
   SymmetryBundle constructor, in yield order *)
Definition symmetric_groups (body: list bodyelem) (global_vars: vset) (rest: list bodyelem)
  : result (list (list symmetry)) :=
  rbind (potential_equalities body) (fun pes => crosscheck pes (body ++ rest) global_vars).

(* ================================================================================================ *)
(* SymmetryBundle                                                                                   *)
(* ================================================================================================ *)
(* _remove_lits / _add_lits are sets (duplicate free lists), _aux_rules a list *)
Record bundle := mk_bundle { b_remove: list lit; b_aux: list stmt; b_add: list lit }.
Definition bundle_empty (b: bundle) : bool :=
  Nat.eqb (List.length (b_add b) + List.length (b_aux b) + List.length (b_remove b)) 0.
Definition bundle_remove_lits (b: bundle) : list lit := sort_lits (b_remove b).
Definition bundle_add_lits (b: bundle) : list lit := sort_lits (b_add b).

Definition m_new_auxpredicate (arity: nat) : M pred :=
  fun st =>
    match new_auxpredicate (unique_names st) arity with
    | Ok (p, un) => (set_names st un (pred_cache st), Ok p)
    | Raise k => (st, Raise k)
    | OutOfFragment => (st, OutOfFragment)
    | OutOfFuel => (st, OutOfFuel)
    end.

(* _create_count: returns ([projected literal, count literal], rules extended by the domain rules) *)
Definition create_count (sym: symmetry) (rules: list stmt) : M (list lit * list stmt) :=
  match sym_literals sym with
  | Lit s (ASym (TFun name args ext)) :: _ =>
      let first_sym := Lit s (ASym (TFun name args ext)) in
      let uneq_positions := map fst (strict_neq sym) ++ map fst (nstrict_neq sym) in
      let indexed := combine (seq 0 (List.length args)) args in
      let same := map (fun ix : nat * term => if nmem_ (fst ix) uneq_positions then TVar "_" else snd ix) indexed in
      let nsame := flat_map (fun ix : nat * term => if nmem_ (fst ix) uneq_positions then [snd ix] else []) indexed in
      let p : pred := (name, List.length same) in
      mbind (fun st =>
               if has_domain st p then
                 mbind (create_domain_top p) (fun rs =>
                 mbind (fun st' => (st', domain_predicate st' p)) (fun d => mret (fst d, rs))) st
               else (st, Ok (name, []))) (fun '(name', rs) =>
      let atom := ASym (TFun name' same ext) in
      let agg := ABodyAgg (Some (CLe, TSym (SNum (Z.of_nat (List.length (sym_literals sym)))))) FCount
                          [(nsame, [first_sym])] None in
      mret ([Lit s atom; Lit NoSign agg], rules ++ rs))
  | _ => mraise "IndexError"
  end.

(* x.name != "_" : only Variable and Function nodes have a name *)
Definition arg_named (x: term) : result bool :=
  match x with
  | TVar n => Ok (negb (String.eqb n "_"))
  | TFun n _ _ => Ok (negb (String.eqb n "_"))
  | _ => Raise "AttributeError"
  end.

Definition init_complex (in_aggregate: bool) (symmetries: list symmetry) : M bundle :=
  mfoldl (fun (b: bundle) (sym: symmetry) =>
            let rem := ladd_all (flat_map snd (strict_neq sym ++ nstrict_neq sym))
                                (ladd_all (sym_literals sym) (b_remove b)) in
            if in_aggregate then
              mbind (create_count sym (b_aux b)) (fun '(aux_body, rules) =>
              match aux_body with
              | Lit _ (ASym (TFun _ sargs _)) :: _ =>
                  mbind (mlift (filter_r arg_named sargs)) (fun args =>
                  mbind (m_new_auxpredicate (List.length args)) (fun p =>
                  let head_lit := Lit NoSign (ASym (TFun (fst p) args false)) in
                  mret (mk_bundle rem (rules ++ [SRule loc_line (HLit head_lit) (map BLit aux_body)])
                                  (ladd head_lit (b_add b)))))
              | _ => mraise "AttributeError"
              end)
            else
              mbind (create_count sym (b_aux b)) (fun '(lits, rules) =>
              mret (mk_bundle rem rules (ladd_all lits (b_add b)))))
         symmetries (mk_bundle [] [] []).

Fixpoint pairwise {A} (l: list A) : list (A * A) :=
  match l with
  | x :: ((y :: _) as r) => (x, y) :: pairwise r
  | _ => []
  end.

Definition init_simple (symmetries: list symmetry) : result bundle :=
  let improve := forallb (fun sym => negb (Binding.nonempty (nstrict_neq sym))) symmetries in
  if negb improve then Ok (mk_bundle [] [] []) else
  match symmetries with
  | [] => Raise "IndexError"
  | sym :: _ =>
      match strict_neq sym with
      | [] => Raise "StopIteration"
      | (_, lits) :: _ =>
          rbind (fold_left (fun (acc: result (list lit * list term)) (l: lit) =>
                              rbind acc (fun '(rem, collect) =>
                              match l with
                              | Lit _ (ACmp t ((_, gt) :: _)) => Ok (ladd l rem, tadd gt (tadd t collect))
                              | _ => Raise "AttributeError"
                              end)) lits (Ok ([], []))) (fun '(rem, collect) =>
          Ok (mk_bundle rem []
                (ladd_all (map (fun lr : term * term => Lit NoSign (ACmp (fst lr) [(CLt, snd lr)]))
                               (pairwise (sort_terms collect))) [])))
      end
  end.

(* SymmetryBundle.__init__ *)
Definition make_bundle (in_aggregate: bool) (symmetries: list symmetry) : M bundle :=
  let complex_ :=
    andb (Nat.eqb (List.length symmetries) 1)
         (forallb (fun sym => Nat.eqb (List.length (nstrict_neq sym) + List.length (strict_neq sym)) 1) symmetries) in
  if complex_ then init_complex in_aggregate symmetries else mlift (init_simple symmetries).

(* list(self.largest_symmetric_group(body, global_vars, rest, in_aggregate)) *)
Definition largest_symmetric_group (body: list bodyelem) (global_vars: vset) (rest: list bodyelem) (in_aggregate: bool)
  : M (list bundle) :=
  mbind (mlift (symmetric_groups body global_vars rest)) (mmap (make_bundle in_aggregate)).

(* ================================================================================================ *)
(* _process_aggregates / _process_stm / _process / execute                                          *)
(* ================================================================================================ *)
Definition stm_global_vars (stm: stmt) : result vset :=
  match stm with
  | SRule _ h _ => global_vars_inside_head h
  | SMin _ w p ts _ => Ok (sof (vars_term w ++ vars_term p ++ flat_map vars_term ts))
  | _ => Raise "AttributeError"
  end.
Definition stm_body (stm: stmt) : list bodyelem :=
  match stm with SRule _ _ b => b | SMin _ _ _ _ b => b | _ => [] end.
Definition set_body (stm: stmt) (b: list bodyelem) : stmt :=
  match stm with
  | SRule line h _ => SRule line h b
  | SMin line w p ts _ => SMin line w p ts b
  | _ => stm
  end.

(* for lit in remove_lits(): body.remove(lit) ; for lit in add_lits(): body.append(lit) *)
Definition apply_bundle (b: bundle) (body: list bodyelem) : result (list bodyelem) :=
  rbind (remove_lits_from (bundle_remove_lits b) body) (fun bd => Ok (bd ++ map BLit (bundle_add_lits b))).

Fixpoint unblit (l: list bodyelem) : list lit :=
  match l with
  | [] => []
  | BLit x :: r => x :: unblit r
  | BCond _ _ :: r => unblit r
  end.

(* one element of one body aggregate: (new element, ret extended by the aux rules) *)
Definition process_element (stm: stmt) (ret: list stmt) (elem: belem) : M (belem * list stmt) :=
  let condition := map BLit (snd elem) in
  mbind (mlift (stm_global_vars stm)) (fun global_vars =>
  mbind (largest_symmetric_group condition global_vars (stm_body stm) true) (fun bundles =>
  mbind (mlift (fold_left (fun (acc: result (list bodyelem * list stmt)) (b: bundle) =>
                             rbind acc (fun '(cond, ret) =>
                             rbind (apply_bundle b cond) (fun cond' => Ok (cond', ret ++ b_aux b))))
                          bundles (Ok (condition, ret)))) (fun '(cond, ret') =>
  mret ((fst elem, unblit cond), ret')))).

Definition process_aggregates (stm: stmt) : M (list stmt) :=
  mbind (mfoldl (fun (acc: list stmt * list bodyelem) (blit: bodyelem) =>
                   let '(ret, newbody) := acc in
                   match blit with
                   | BLit (Lit s (ABodyAgg lg f es rg)) =>
                       mbind (mfoldl (fun (acc2: list stmt * list belem) (elem: belem) =>
                                        mbind (process_element stm (fst acc2) elem) (fun '(e', ret') =>
                                        mret (ret', snd acc2 ++ [e'])))
                                     es (ret, [])) (fun '(ret', new_elements) =>
                       mret (ret', newbody ++ [BLit (Lit s (ABodyAgg lg f new_elements rg))]))
                   | _ => mret (ret, newbody ++ [blit])
                   end) (stm_body stm) ([], [])) (fun '(ret, newbody) =>
  mret (ret ++ [set_body stm newbody])).

Definition process_stm (stm: stmt) : M (list stmt) :=
  mbind (mlift (stm_global_vars stm)) (fun global_vars =>
  mbind (largest_symmetric_group (stm_body stm) global_vars [] false) (fun bundles =>
  mbind (mlift (fold_left (fun (acc: result (list bodyelem * list stmt)) (b: bundle) =>
                             rbind acc (fun '(body, ret) =>
                             if bundle_empty b then Ok (body, ret) else
                             rbind (apply_bundle b body) (fun body' => Ok (body', ret ++ b_aux b))))
                          bundles (Ok (stm_body stm, [])))) (fun '(body, ret) =>
  mret (ret ++ [set_body stm body])))).

Definition process (stm: stmt) : M (list stmt) :=
  mbind (process_aggregates stm) (mconcat process_stm).

Definition is_rule_or_min (s: stmt) : bool :=
  match s with SRule _ _ _ | SMin _ _ _ _ _ => true | _ => false end.

Definition execute_m (orig: list stmt) : M (list stmt) :=
  mbind (mlift (Normalize.rmap (fun rule => if is_rule_or_min rule then replace_simple_assignments rule else Ok rule) orig))
        (mconcat (fun rule => if is_rule_or_min rule then process rule else mret [rule])).

(* SymmetryTranslator.__init__ *)
Definition init_translator (prg: list stmt) (input_predicates: list pred) : result dstate :=
  dp_init (init_names prg input_predicates) prg.

(* SymmetryTranslator(ctor_prg, input_predicates).execute(prg) *)
Definition execute (ctor_prg: list stmt) (input_predicates: list pred) (prg: list stmt) : result (list stmt) :=
  rbind (init_translator ctor_prg input_predicates) (fun st => snd (execute_m prg st)).

(* ================================================================================================ *)
(* wrappers and comparison helpers for vlib/fam_symmetry.py                                         *)
(* ================================================================================================ *)
Definition chk_stmt (model obs: result stmt) : bool := chk_result stmt_eqb model obs.

Definition ineq_eqb (a b: ineq) : bool :=
  andb (lit_eqb (fst (fst a)) (fst (fst b))) (andb (term_eqb (snd (fst a)) (snd (fst b))) (term_eqb (snd a) (snd b))).
Definition chk_ineqs (model obs: result ineqs) : bool :=
  chk_result (list_eqb (pair_eqb cmp_eqb (list_eqb ineq_eqb))) model obs.
Definition chk_symbols (model obs: list (list lit)) : bool := list_eqb (list_eqb lit_eqb) model obs.

Definition posmap_eqb (a b: posmap) : bool := list_eqb (pair_eqb Nat.eqb (list_eqb lit_eqb)) a b.
Definition symmetry_eqb (a b: symmetry) : bool :=
  andb (list_eqb lit_eqb (sym_literals a) (sym_literals b))
       (andb (posmap_eqb (strict_neq a) (strict_neq b)) (posmap_eqb (nstrict_neq a) (nstrict_neq b))).
Definition chk_groups (model obs: result (list (list symmetry))) : bool :=
  chk_result (list_eqb (list_eqb symmetry_eqb)) model obs.
Definition groups_in_fragment (x: result (list (list symmetry))) : bool := in_fragment x.

(* the body (or, with an element given, the condition of that element) handed to largest_symmetric_group *)
Definition groups_of_stm (stm: stmt) : result (list (list symmetry)) :=
  rbind (stm_global_vars stm) (fun gv => symmetric_groups (stm_body stm) gv []).
Definition groups_of_condition (stm: stmt) (condition: list lit) : result (list (list symmetry)) :=
  rbind (stm_global_vars stm) (fun gv => symmetric_groups (map BLit condition) gv (stm_body stm)).

(* one SymmetryBundle built on a fresh translator: remove_lits(), aux_rules(), add_lits(), empty(),
   and the UniqueNames state afterwards *)
Definition bundle_obs := (list lit * list stmt * list lit * bool)%type.
Definition bundle_obs_eqb (a b: bundle_obs) : bool :=
  let '(r, x, ad, e) := a in
  let '(r', x', ad', e') := b in
  andb (list_eqb lit_eqb r r') (andb (list_eqb stmt_eqb x x') (andb (list_eqb lit_eqb ad ad') (Bool.eqb e e'))).
Definition run_bundle (prg: list stmt) (ins: list pred) (in_aggregate: bool) (symmetries: list symmetry)
  : result (bundle_obs * nat * list pred) :=
  rbind (init_translator prg ins) (fun st =>
  let '(st', r) := make_bundle in_aggregate symmetries st in
  rbind r (fun b =>
  Ok (bundle_remove_lits b, b_aux b, bundle_add_lits b, bundle_empty b,
      auxcounter (unique_names st'), known (unique_names st')))).
Definition chk_bundle (model: result (bundle_obs * nat * list pred)) (obs: result (bundle_obs * nat * list pred)) : bool :=
  chk_result (fun a b => andb (bundle_obs_eqb (fst (fst a)) (fst (fst b)))
                              (andb (Nat.eqb (snd (fst a)) (snd (fst b))) (pset_eqb (snd a) (snd b)))) model obs.

(* _process on every Rule / Minimize of prg with ONE translator (state threaded as in execute);
   the list ends after the first entry that is not Ok *)
Fixpoint process_rules (st: dstate) (prg: list stmt) : list (result (list stmt)) * dstate :=
  match prg with
  | [] => ([], st)
  | stm :: prg' =>
      if is_rule_or_min stm then
        match process stm st with
        | (st', Ok r) => let x := process_rules st' prg' in (Ok r :: fst x, snd x)
        | (st', e) => ([e], st')
        end
      else process_rules st prg'
  end.
Fixpoint chk_rule_results (model obs: list (result (list stmt))) : option bool :=
  match model, obs with
  | [], [] => Some true
  | OutOfFragment :: _, _ :: _ => None
  | m :: model', o :: obs' =>
      if result_eqb (list_eqb stmt_eqb) m o then chk_rule_results model' obs' else Some false
  | _, _ => Some false
  end.
(* observed: None = the constructor returned, Some k = it raised k; the per-rule results; the final
   auxcounter and predicate set of the UniqueNames object *)
Definition chk_process (prg: list stmt) (ins: list pred) (obs_init: option string)
           (obs: list (result (list stmt))) (obs_counter: nat) (obs_known: list pred) : bool :=
  match init_translator prg ins with
  | OutOfFragment => true
  | OutOfFuel => false
  | Raise k => match obs_init with Some k' => String.eqb k k' | None => false end
  | Ok st =>
      match obs_init with
      | Some _ => false
      | None =>
          let x := process_rules st prg in
          match chk_rule_results (fst x) obs with
          | None => true
          | Some false => false
          | Some true => andb (Nat.eqb (auxcounter (unique_names (snd x))) obs_counter)
                              (pset_eqb (known (unique_names (snd x))) obs_known)
          end
      end
  end.
Definition process_in_fragment (prg: list stmt) (ins: list pred) : bool :=
  match init_translator prg ins with
  | Ok st => forallb in_fragment (fst (process_rules st prg))
  | OutOfFragment => false
  | _ => true
  end.
Definition execute_in_fragment (ctor_prg: list stmt) (ins: list pred) (prg: list stmt) : bool :=
  in_fragment (execute ctor_prg ins prg).
