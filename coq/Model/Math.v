(* Model of the tree-manipulating glue around sympy in ngo/math_simplification.py (class Goebner).

   sympy itself (groebner, solve, automatic normalisation of expressions on construction) is NOT modelled.
   What is modelled:
   A. Goebner.sympy2ast with its helpers new_sum / new_mul / new_pow / new_abs: sympy expression tree
      (walked through expr.func / expr.args exactly as the Python does) -> clingo AST (term or guard-free
      body aggregate).  The three dictionaries _fo_vars / _sym2agg / _constants are the environment [genv].
   B. Goebner._to_sympy_term: clingo term -> None | sympy expression.  Because sympy normalises on
      construction the model returns the UN-normalised tree that the Python builds operator by operator
      (Div = floor(l * r**-1), Minus = l + (-1)*r, unary minus = 0 + (-1)*t, Mod = Mod(l, r)); acceptance
      (None or not), the raised ZeroDivisionError and the registration side effects on _fo_vars / _constants
      are compared exactly; the expression is compared through its value [seval] on integer assignments.
      The table Goebner.ast2sympy_op is [ast2sympy_op].
   The exact rational semantics [seval] of sympy trees (floor rounds down, Mod has the sign of the divisor,
   negative exponents give fractions) lives here too because the correspondence check evaluates it.
   No proofs here (Link/MathSpec.v). *)
From Coq Require Import List String ZArith Bool QArith Qround Qabs Qpower.
From NGO Require Import Syntax.Ast Sem.Sym.
Import ListNotations.
Close Scope Q_scope.
Open Scope string_scope. Open Scope list_scope.

(* ---------- sympy expression trees ---------- *)

(* identity of a sympy Symbol: name + assumptions (integer = true iff the assumptions are exactly those of
   Symbol(name, integer=True), the only kind ngo creates); a Dummy is identified by its dummy_index *)
Inductive skey :=
| KSym (name: string) (integer: bool)
| KDummy (name: string) (idx: Z).

Definition skey_eqb (a b: skey) : bool :=
  match a, b with
  | KSym n i, KSym m j => andb (String.eqb n m) (Bool.eqb i j)
  | KDummy n i, KDummy m j => andb (String.eqb n m) (Z.eqb i j)
  | _, _ => false
  end.

(* expr.func as far as sympy2ast distinguishes it. FPow carries the observed value of
   `len(expr.args) == 2 and expr.args[1].is_positive is True` (a query to sympy's assumption system,
   not modelled; for a literal Integer exponent n it is n > 0).  FFloor is an "other" func for sympy2ast,
   it is separate only because _to_sympy_term builds it and seval gives it a value. *)
Inductive sfunc := FAdd | FMul | FPow (exp_positive: bool) | FAbs | FMod | FFloor | FOther (tag: string).

Inductive sexpr :=
| SInt (z: Z)                          (* func in (Integer, Zero, NegativeOne, One) *)
| SRat (p: Z) (q: positive)            (* func in (Rational, Half): args = () *)
| SSym (k: skey)                       (* func in (Symbol, Dummy) *)
| SApp (f: sfunc) (args: list sexpr).  (* everything else, e.g. Float = SApp (FOther "Float") [] *)

(* ---------- results of sympy2ast ---------- *)
Definition agg := (aggfun * list belem)%type.     (* BodyAggregate with left_guard = right_guard = None *)
Inductive sast := RTerm (t: term) | RAgg (f: aggfun) (elems: list belem).

Record genv := {
  fo_vars : list (skey * term);      (* Goebner._fo_vars   *)
  sym2agg : list (skey * agg);       (* Goebner._sym2agg   *)
  constants : list (skey * term)     (* Goebner._constants *)
}.

Fixpoint assoc {A} (k: skey) (l: list (skey * A)) : option A :=
  match l with
  | [] => None
  | (k', v) :: r => if skey_eqb k k' then Some v else assoc k r
  end.

Definition int32 (z: Z) : bool := andb (Z.leb (-2147483648) z) (Z.leb z 2147483647).

Definition minmax (f: aggfun) : bool := match f with FMin | FMax => true | _ => false end.

(* aggs = [x for x in asts if BodyAggregate], rest = [x for x in asts if not BodyAggregate] *)
Fixpoint split_asts (asts: list sast) : list term * list agg :=
  match asts with
  | [] => ([], [])
  | RTerm t :: r => let (ts, ags) := split_asts r in (t :: ts, ags)
  | RAgg f es :: r => let (ts, ags) := split_asts r in (ts, (f, es) :: ags)
  end.

Definition agg_ident (i: nat) : term := TFun "__agg" [TSym (SNum (Z.of_nat i))] false.
Definition tag_elems (i: nat) (es: list belem) : list belem :=
  map (fun e => (fst e ++ [agg_ident i], snd e)) es.

(* for index in range(1, len(aggs)): min/max -> SympyApi, else append tagged elements *)
Fixpoint sum_more (index: nat) (aggs: list agg) : result (list belem) :=
  match aggs with
  | [] => Ok []
  | (f, es) :: r =>
      if minmax f then Raise "SympyApi"
      else rbind (sum_more (S index) r) (fun more => Ok (tag_elems index es ++ more))
  end.

Fixpoint rest_elems (index: nat) (rest: list term) : list belem :=
  match rest with
  | [] => []
  | t :: r => ([t; agg_ident index], []) :: rest_elems (S index) r
  end.

Definition fold_bin (o: binop) (ts: list term) : result term :=
  match ts with
  | [] => Raise "IndexError"          (* unreachable: callers guarantee a first element *)
  | t :: r => Ok (fold_left (fun acc x => TBin o acc x) r t)
  end.

Definition new_sum (asts: list sast) : result sast :=
  if Nat.ltb (List.length asts) 2 then Raise "AssertionError" else
  let (rest, aggs) := split_asts asts in
  match aggs with
  | (f0, es0) :: more =>
      if minmax f0 then Raise "SympyApi" else
      rbind (sum_more 1 more) (fun els =>
        Ok (RAgg FSum (tag_elems 0 es0 ++ els ++ rest_elems (List.length aggs) rest)))
  | [] => rbind (fold_bin BPlus rest) (fun t => Ok (RTerm t))
  end.

Definition new_abs (asts: list sast) : result sast :=
  match asts with
  | [a] => match a with RAgg _ _ => Raise "SympyApi" | RTerm t => Ok (RTerm (TUn UAbs t)) end
  | _ => Raise "SympyApi"
  end.

Definition new_pow (asts: list sast) : result sast :=
  match asts with
  | [a; b] =>
      match a, b with
      | RTerm x, RTerm y => Ok (RTerm (TBin BPow x y))
      | _, _ => Raise "SympyApi"
      end
  | _ => Raise "SympyApi"
  end.

Definition mul_elem (factor: term) (e: belem) : belem :=
  match fst e with
  | [] => ([TBin BMul (TSym (SNum 1)) factor], snd e)
  | t :: r => (TBin BMul t factor :: r, snd e)
  end.

Definition new_mul (asts: list sast) : result sast :=
  if Nat.ltb (List.length asts) 2 then Raise "AssertionError" else
  let (rest, aggs) := split_asts asts in
  match aggs with
  | [] => rbind (fold_bin BMul rest) (fun t => Ok (RTerm t))
  | [(f, es)] =>
      if minmax f then Raise "SympyApi" else
      rbind (fold_bin BMul rest) (fun factor => Ok (RAgg f (map (mul_elem factor) es)))
  | _ => Raise "SympyApi"
  end.

Definition lookup_sym (g: genv) (k: skey) : result sast :=
  match assoc k (fo_vars g) with
  | Some t => Ok (RTerm t)
  | None =>
      match assoc k (sym2agg g) with
      | Some (f, es) => Ok (RAgg f es)
      | None =>
          match assoc k (constants g) with
          | Some t => Ok (RTerm t)
          | None => Raise "AssertionError"       (* assert False, "Solve for t first ?" *)
          end
      end
  end.

Definition dispatch (f: sfunc) (nargs: nat) (asts: list sast) : result sast :=
  match f with
  | FAdd => new_sum asts
  | FMul => new_mul asts
  | FPow pos => if andb (Nat.eqb nargs 2) pos then new_pow asts else Raise "SympyApi"
  | FAbs => new_abs asts
  | FMod => Raise "SympyApi"
  | FFloor | FOther _ => Raise "SympyApi"
  end.

(* the children are translated first, left to right; the first exception wins *)
Fixpoint sympy2ast (g: genv) (e: sexpr) : result sast :=
  match e with
  | SInt z => if int32 z then Ok (RTerm (TSym (SNum z))) else Raise "OverflowError"   (* clingo.Number(int(expr)) *)
  | SSym k => lookup_sym g k
  | SRat _ _ => Raise "SympyApi"                 (* no args, func not in any test: last line *)
  | SApp f args =>
      rbind ((fix go (l: list sexpr) : result (list sast) :=
                match l with
                | [] => Ok []
                | x :: r => rbind (sympy2ast g x) (fun a => rbind (go r) (fun b => Ok (a :: b)))
                end) args)
            (fun asts => dispatch f (List.length args) asts)
  end.

(* the same with the children pulled out, for proofs *)
Fixpoint sympy2ast_list (g: genv) (l: list sexpr) : result (list sast) :=
  match l with
  | [] => Ok []
  | x :: r => rbind (sympy2ast g x) (fun a => rbind (sympy2ast_list g r) (fun b => Ok (a :: b)))
  end.

(* ---------- exact rational value of a sympy tree ---------- *)
Definition qpow (b x: Q) : option Q :=
  let n := Qfloor x in
  if negb (Qeq_bool x (inject_Z n)) then None            (* irrational in general *)
  else if Z.leb 0 n then Some (Qpower b n)
  else if Qeq_bool b 0 then None                         (* zoo *)
  else Some (Qpower b n).

Definition qmod (a b: Q) : option Q :=
  if Qeq_bool b 0 then None else Some (Qminus a (Qmult b (inject_Z (Qfloor (Qdiv a b))))).

Definition apply_func (f: sfunc) (vs: list Q) : option Q :=
  match f, vs with
  | FAdd, _ => Some (fold_left Qplus vs (inject_Z 0))
  | FMul, _ => Some (fold_left Qmult vs (inject_Z 1))
  | FPow _, [b; x] => qpow b x
  | FAbs, [a] => Some (Qabs a)
  | FMod, [a; b] => qmod a b
  | FFloor, [a] => Some (inject_Z (Qfloor a))
  | _, _ => None
  end.

Fixpoint seval (sg: skey -> Z) (e: sexpr) : option Q :=
  match e with
  | SInt z => Some (inject_Z z)
  | SRat p q => Some (Qmake p q)
  | SSym k => Some (inject_Z (sg k))
  | SApp f args =>
      match (fix go (l: list sexpr) : option (list Q) :=
               match l with
               | [] => Some []
               | x :: r => match seval sg x, go r with Some a, Some b => Some (a :: b) | _, _ => None end
               end) args with
      | Some vs => apply_func f vs
      | None => None
      end
  end.

Fixpoint seval_list (sg: skey -> Z) (l: list sexpr) : option (list Q) :=
  match l with
  | [] => Some []
  | x :: r => match seval sg x, seval_list sg r with Some a, Some b => Some (a :: b) | _, _ => None end
  end.

(* symbols of an expression, left to right *)
Fixpoint symbols (e: sexpr) : list skey :=
  match e with
  | SSym k => [k]
  | SApp _ args => flat_map symbols args
  | _ => []
  end.

(* ---------- B. Goebner.ast2sympy_op and Goebner._to_sympy_term ---------- *)
Inductive srel := Equality | GreaterThan | LessThan | StrictLessThan | StrictGreaterThan | Unequality.
Definition ast2sympy_op (o: cmp) : srel :=
  match o with
  | CEq => Equality | CGe => GreaterThan | CLe => LessThan
  | CLt => StrictLessThan | CGt => StrictGreaterThan | CNe => Unequality
  end.

(* str(SymbolicTerm(Function(name, [], positive))) *)
Definition const_str (name: string) (positive: bool) : string :=
  let n := if String.eqb name "" then "()" else name in
  if positive then n else "-" ++ n.

(* registration state: (_fo_vars, _constants) in insertion order; a second assignment to an existing key
   keeps its position *)
Definition tstate := (list (skey * term) * list (skey * term))%type.
Definition reg {A} (k: skey) (v: A) (l: list (skey * A)) : list (skey * A) :=
  match assoc k l with Some _ => l | None => l ++ [(k, v)] end.

Definition sneg (e: sexpr) : sexpr := SApp FMul [SInt (-1); e].

Fixpoint ground_sexpr (e: sexpr) : bool :=
  match e with
  | SSym _ => false
  | SApp _ args => forallb ground_sexpr args
  | _ => true
  end.

(* `lhs % rhs` raises ZeroDivisionError iff sympy knows rhs.is_zero.  Modelled: a ground divisor of value 0
   raises; a divisor with a non-zero value at one of two sample points cannot have been normalised to 0;
   everything else (ground and undefined, or vanishing at both sample points) is outside the fragment. *)
Definition mod_check (r: sexpr) : result unit :=
  let s2 := fun _ : skey => 2%Z in
  let s3 := fun k : skey => match k with KSym n _ => (3 + Z.of_nat (String.length n))%Z | KDummy _ i => (5 + i)%Z end in
  let nz := fun o : option Q => match o with Some q => negb (Qeq_bool q (inject_Z 0)) | None => false end in
  if ground_sexpr r then
    match seval s2 r with
    | Some q => if Qeq_bool q (inject_Z 0) then Raise "ZeroDivisionError" else Ok tt
    | None => OutOfFragment
    end
  else if orb (nz (seval s2 r)) (nz (seval s3 r)) then Ok tt else OutOfFragment.

Fixpoint to_sympy_term (t: term) (st: tstate) : result (option sexpr * tstate) :=
  match t with
  | TVar x =>
      let k := KSym x true in Ok (Some (SSym k), (reg k t (fst st), snd st))
  | TSym (SNum z) => Ok (Some (SInt z), st)
  | TSym (SStr _) => Ok (None, st)
  | TSym SInf | TSym SSup => Ok (None, st)
  | TSym (SFun name [] pos) =>
      let k := KSym (const_str name pos) true in Ok (Some (SSym k), (fst st, reg k t (snd st)))
  | TSym (SFun _ (_ :: _) _) => Ok (None, st)
  | TUn o a =>
      rbind (to_sympy_term a st) (fun r =>
        match fst r with
        | None => Ok (None, snd r)
        | Some e =>
            match o with
            | UMinus => Ok (Some (SApp FAdd [SInt 0; sneg e]), snd r)
            | UNeg => Ok (None, snd r)
            | UAbs => Ok (Some (SApp FAbs [e]), snd r)
            end
        end)
  | TBin o l r =>
      match o with
      | BAnd | BOr | BXor => Ok (None, st)
      | _ =>
          rbind (to_sympy_term l st) (fun rl =>
          rbind (to_sympy_term r (snd rl)) (fun rr =>
            match fst rl, fst rr with
            | Some a, Some b =>
                match o with
                | BDiv => Ok (Some (SApp FFloor [SApp FMul [a; SApp (FPow false) [b; SInt (-1)]]]), snd rr)
                | BMinus => Ok (Some (SApp FAdd [a; sneg b]), snd rr)
                | BMod => rbind (mod_check b) (fun _ => Ok (Some (SApp FMod [a; b]), snd rr))
                | BMul => Ok (Some (SApp FMul [a; b]), snd rr)
                | BPlus => Ok (Some (SApp FAdd [a; b]), snd rr)
                | _ => Ok (Some (SApp (FPow false) [a; b]), snd rr)       (* BPow *)
                end
            | _, _ => Ok (None, snd rr)
            end))
      end
  | TFun name [] ext =>
      (* str(t): the empty tuple prints as "()", an external function as "@f" *)
      if andb (String.eqb name "") ext then OutOfFragment
      else Ok (Some (SSym (KSym ((if ext then "@" else "") ++ (if String.eqb name "" then "()" else name)) true)), st)
           (* NOT registered anywhere *)
  | TFun _ (_ :: _) _ => Ok (None, st)
  | TInterval _ _ => Ok (None, st)
  | TPool _ => Ok (None, st)
  end.

(* ---------- comparison helpers for the correspondence shards ---------- *)
Definition belem_list_eqb := list_eqb belem_eqb.
Definition sast_eqb (a b: sast) : bool :=
  match a, b with
  | RTerm x, RTerm y => term_eqb x y
  | RAgg f es, RAgg f' es' => andb (aggfun_eqb f f') (belem_list_eqb es es')
  | _, _ => false
  end.
Definition result_eqb_m {A} (e: A -> A -> bool) (x y: result A) : bool :=
  match x, y with
  | Ok a, Ok b => e a b
  | Raise k, Raise k' => String.eqb k k'
  | _, _ => false
  end.
Definition chk_sympy2ast (g: genv) (e: sexpr) (obs: result sast) : bool :=
  result_eqb_m sast_eqb (sympy2ast g e) obs.

Definition assign (vals: list (string * Z)) : skey -> Z :=
  fun k => match k with
           | KSym n true =>
               (fix look (l: list (string * Z)) : Z :=
                  match l with [] => 0%Z | (m, v) :: r => if String.eqb n m then v else look r end) vals
           | _ => 0%Z
           end.

(* observed value of the real sympy expression under an assignment: Some (p, q) = the finite rational p/q *)
Definition value_ok (e: sexpr) (o: list (string * Z) * option (Z * positive)) : bool :=
  match seval (assign (fst o)) e with
  | None => true        (* raw tree undefined (division by zero, ...): normalisation may define it *)
  | Some q => match snd o with Some (p, d) => Qeq_bool q (Qmake p d) | None => false end
  end.

Definition keys {A} (l: list (skey * A)) : list skey := map fst l.

(* obs = Ok (accepted, keys of _fo_vars, keys of _constants) | Raise kind *)
Definition chk_to_sympy_term (t: term) (obs: result (bool * list skey * list skey))
           (vals: list (list (string * Z) * option (Z * positive))) : bool :=
  match to_sympy_term t ([], []), obs with
  | OutOfFragment, _ => true
  | Raise k, Raise k' => String.eqb k k'
  | Ok (oe, st), Ok (acc, fo, co) =>
      andb (Bool.eqb (match oe with Some _ => true | None => false end) acc)
        (andb (list_eqb skey_eqb (keys (fst st)) fo)
          (andb (list_eqb skey_eqb (keys (snd st)) co)
             (match oe with Some e => forallb (value_ok e) vals | None => true end)))
  | _, _ => false
  end.
Definition to_sympy_in_fragment (t: term) : bool :=
  match to_sympy_term t ([], []) with OutOfFragment => false | _ => true end.

Definition srel_eqb (a b: srel) : bool :=
  match a, b with
  | Equality, Equality | GreaterThan, GreaterThan | LessThan, LessThan | StrictLessThan, StrictLessThan
  | StrictGreaterThan, StrictGreaterThan | Unequality, Unequality => true
  | _, _ => false
  end.
