(* Executable model of ngo/minmax_aggregates.py (all 800 lines): _characteristic_variables and the class
   MinMaxAggregator (constructor, _store_aggregate_head, _store_aggregate_for_minimize,
   _translatable_element, _minmax_agg, _create_aggregate_replacement, _simple_translation, replace_orig,
   _chain_translation, _process_rule, _create_replacement, _replace_results_in_minimize, _split_element,
   _replace_results_in_sum_agg_elem, _replace_results_in_sum_agg, _replace_results_in_sum,
   _replace_results_in_x, execute).  No proofs here.

   Conventions
   * Object state: `self.domain_predicates` (which shares `self.unique_names`) is Dependency.dstate and
     is threaded through the state-and-exception monad Dependency.M; `self.rule_dependency` is only read
     through `len(get_bodies(p)) == 1` (the defaultdict insertion of an unknown key is not observable
     here), so it is the immutable Dependency.rdstate of the constructor's program;
     `self._minmax_preds` is an explicit list (`mmpred`), functions that append to it return the
     appended entries.
   * Python exceptions are `Raise "<class>"`, in the order in which the Python evaluates.
   * Python sets of Variable nodes are duplicate-free lists of names (Binding.vset).  Only membership,
     inclusion and `sorted()` are observed, with one exception: `_simple_translation` builds `old2new`
     by iterating the set `lvars` (hash order) and calling `make_unique` for each member.  The model
     iterates in first-occurrence order.  The order can only matter when two local variables `V` and
     `Vd..` (d.. digits) are renamed and all of V0..V9 already occur in the rule; the family reports
     that case as not comparable (never seen).
   * Python aliasing in `_simple_translation` (`body = rule.body; body.remove(agg)` and
     `newlits = elem.condition; newlits.append(..)` mutate the INPUT rule / aggregate in place) is not
     observable in the returned statements: the mutated rule is replaced in the output, the domain
     rules of DomainPredicates were rebuilt by `transform_ast` (fresh nodes) and RuleDependency is only
     asked for the number of bodies.
   * The generated statements carry LOC (line 1); `rule.update(body=..)` keeps the line of the rule.
   * Fragment: rules with pools or theory atoms make the DomainPredicates constructor answer
     OutOfFragment (Dependency.dp_init); the same is done here for minimize statements whose body
     contains a theory atom or a pool (their Variable nodes are invisible in the mirror). *)
From Coq Require Import List String Ascii ZArith Bool Arith.
From NGO Require Import Syntax.Ast Syntax.Order Gen.Names Gen.Tables Model.Traverse Model.Corr Model.Globals
     Model.Binding Model.Dependency.
From NGO Require Model.Unify Model.Normalize.
Import ListNotations.
Open Scope string_scope. Open Scope list_scope.

(* ================================================================================================ *)
(* small helpers                                                                                    *)
(* ================================================================================================ *)
(* all(map(f, l)) with early exit; f may raise *)
Fixpoint all_r {A} (f: A -> result bool) (l: list A) : result bool :=
  match l with
  | [] => Ok true
  | x :: r => rbind (f x) (fun b => if b then all_r f r else Ok false)
  end.

Definition mget : M dstate := fun st => (st, Ok st).
Definition mfrag {A} : M A := fun st => (st, OutOfFragment).

(* list.index(x) on AST nodes *)
Fixpoint index_of (x: term) (l: list term) : option nat :=
  match l with
  | [] => None
  | y :: r => if term_eqb x y then Some 0 else option_map S (index_of x r)
  end.

(* list.remove(x): the first element equal to x *)
Fixpoint remove_first (x: bodyelem) (l: list bodyelem) : list bodyelem :=
  match l with
  | [] => []
  | y :: r => if bodyelem_eqb x y then r else y :: remove_first x r
  end.

Definition stmt_body (s: stmt) : list bodyelem :=
  match s with SRule _ _ b => b | SMin _ _ _ _ b => b | SShowTerm _ b => b | _ => [] end.
(* rule.update(body=b) *)
Definition set_body (s: stmt) (b: list bodyelem) : stmt :=
  match s with
  | SRule l h _ => SRule l h b
  | SMin l w p ts _ => SMin l w p ts b
  | _ => s
  end.
(* rule.location.begin.line *)
Definition stmt_line (s: stmt) : nat := match s with SRule l _ _ => l | SMin l _ _ _ _ => l | _ => 1 end.

Definition PREV : term := TVar PREV_name.
Definition NEXT : term := TVar NEXT_name.

(* collect_ast(elem, "Variable") for a BodyAggregateElement: terms, then condition *)
Definition vars_belem (e: belem) : list string := flat_map vars_term (fst e) ++ flat_map vars_lit (snd e).
Definition sinter (a b: vset) : vset := filter (fun x => Binding.smem x b) a.
Definition symlit (name: string) (args: list term) (s: sign) : lit := Lit s (ASym (TFun name args false)).

(* ================================================================================================ *)
(* _characteristic_variables                                                                        *)
(* ================================================================================================ *)
Fixpoint characteristic_variables (t: term) : list string :=
  match t with
  | TVar x => [x]
  | TSym _ => []
  | TFun _ args _ => flat_map characteristic_variables args
  | _ => []
  end.

(* ================================================================================================ *)
(* self._minmax_preds                                                                               *)
(* ================================================================================================ *)
(* TranslationMap(oldpred, newpred, mapping) *)
Definition tmap := (pred * pred * list (option nat))%type.
Definition tm_old (t: tmap) : pred := fst (fst t).
Definition tm_new (t: tmap) : pred := snd (fst t).
Definition tm_mapping (t: tmap) : list (option nat) := snd t.
(* (function, translation, index) *)
Definition mmpred := (aggfun * tmap * nat)%type.

Definition is_var_or_symterm (t: term) : bool := match t with TVar _ | TSym _ => true | _ => false end.

(* the entries appended by the final loop of both _store functions *)
Definition store_entries (f: aggfun) (tr: tmap) (args: list term) (max_var: string) : list mmpred :=
  flat_map (fun ia : nat * term =>
              match snd ia with
              | TVar x => if String.eqb x max_var then [(f, tr, fst ia)] else []
              | _ => []
              end) (combine (seq 0 (List.length args)) args).

Definition store_aggregate_head (rd: rdstate) (f: aggfun) (h: head) (rest_vars: list term) (max_var: string)
           (new_name: string) : list mmpred :=
  match h with
  | HLit (Lit _ (ASym (TFun name args _))) =>
      let p := (name, List.length args) in
      if negb (Nat.eqb (List.length (fst (rd_get_bodies rd p))) 1) then []
      else if negb (forallb is_var_or_symterm args) then []
      else
        let all := rest_vars ++ [TVar max_var] in
        let mapping := map (fun a => index_of a all) args in
        store_entries f (p, (new_name, S (List.length rest_vars)), mapping) args max_var
  | _ => []
  end.

Definition store_aggregate_for_minimize (f: aggfun) (rest_vars: list term) (max_var: string) (new_name: string)
  : list mmpred :=
  let args := rest_vars ++ [TVar max_var] in
  if negb (forallb is_var_or_symterm args) then []
  else
    let mapping := map (fun a => index_of a args) args in
    store_entries f ((new_name, List.length args), (new_name, S (List.length rest_vars)), mapping) args max_var.

(* ================================================================================================ *)
(* _translatable_element, _minmax_agg                                                               *)
(* ================================================================================================ *)
Definition static_cond (st: dstate) (cond: lit) : result bool :=
  match cond with
  | Lit _ (ASym t) => rbind (sym_pred t) (fun p => Ok (is_static st p))
  | _ => Ok true
  end.
Definition translatable_element (st: dstate) (e: belem) : result bool :=
  rbind (all_r (static_cond st) (snd e)) (fun b => Ok (negb b)).

Definition is_minmax (f: aggfun) : bool := match f with FMin | FMax => true | _ => false end.
Fixpoint minmax_agg (body: list bodyelem) : option lit :=
  match body with
  | [] => None
  | BLit (Lit s (ABodyAgg lg f es rg)) :: r =>
      if is_minmax f then Some (Lit s (ABodyAgg lg f es rg)) else minmax_agg r
  | _ :: r => minmax_agg r
  end.

(* ================================================================================================ *)
(* _simple_translation                                                                              *)
(* ================================================================================================ *)
(* old2new = {oldvar: uv.make_unique(oldvar) for oldvar in lvars} *)
Fixpoint make_old2new (lvars: list string) (allvars: list string) : result (list (string * string) * list string) :=
  match lvars with
  | [] => Ok ([], allvars)
  | v :: r =>
      rbind (make_unique allvars v) (fun x =>
      rbind (make_old2new r (snd x)) (fun y => Ok ((v, fst x) :: fst y, snd y)))
  end.
Definition rename (m: list (string * string)) (x: string) : term :=
  match alookup String.eqb x m with Some y => TVar y | None => TVar x end.

Fixpoint simple_elems (rule: stmt) (body: list bodyelem) (s: sign) (lg: option guard) (gvars: vset)
         (es: list belem) (allvars: list string) : result (list stmt) :=
  match es with
  | [] => Ok []
  | e :: r =>
      let lvars := sdiff (sof (vars_belem e)) gvars in
      rbind (make_old2new lvars allvars) (fun x =>
      let f := rename (fst x) in
      let terms := map (Normalize.vmap_term f) (fst e) in
      let cond := map (Normalize.vmap_lit f) (snd e) in
      match lg with
      | None => Raise "AttributeError"            (* agg.atom.left_guard.term *)
      | Some (c, t) =>
          match terms with
          | [] => Raise "IndexError"              (* elem.terms[0] *)
          | t0 :: _ =>
              let newlits := cond ++ [Lit s (ACmp t [(c, t0)])] in
              rbind (simple_elems rule body s lg gvars r (snd x)) (fun rest =>
              Ok (set_body rule (body ++ map BLit newlits) :: rest))
          end
      end)
  end.

Definition simple_translation (rule: stmt) (agg: lit) : result (list stmt) :=
  match agg with
  | Lit s (ABodyAgg lg _ es _) =>
      rbind (Binding.global_vars_inside_body (stmt_body rule)) (fun gvars =>
      rbind (init_vars rule) (fun allvars =>
      simple_elems rule (remove_first (BLit agg) (stmt_body rule)) s lg gvars es allvars))
  | _ => Raise "AttributeError"
  end.

(* ================================================================================================ *)
(* AggAnalytics                                                                                     *)
(* ================================================================================================ *)
Definition is_eq_var (g: guard) : bool :=
  match g with (CEq, TVar _) => true | _ => false end.
Definition agg_equal_variable_bound (lg rg: option guard) : list string :=
  (match lg with Some (CEq, TVar x) => [x] | _ => [] end) ++ (match rg with Some (CEq, TVar x) => [x] | _ => [] end).
Definition agg_bounds (lg rg: option guard) : list guard :=
  (match lg with Some g => if is_eq_var g then [] else [(rhs2lhs_comparison (fst g), snd g)] | None => [] end)
  ++ (match rg with Some g => if is_eq_var g then [] else [g] | None => [] end).

(* ================================================================================================ *)
(* replace_orig                                                                                     *)
(* ================================================================================================ *)
Definition replace_orig (rd: rdstate) (rule: stmt) (f: aggfun) (lg rg: option guard) (new_name: string)
           (rest_vars: list term) (lits_without_vars: list bodyelem) : list stmt * list mmpred :=
  let eqv := agg_equal_variable_bound lg rg in
  let max_var := match eqv with x :: _ => x | [] => ("__VAR" ++ new_name)%string end in
  let eqv' := tl eqv in                                      (* after pop(0) *)
  let mv := TVar max_var in
  let body :=
    [BLit (symlit new_name (rest_vars ++ [mv]) NoSign)]
    ++ (match eqv' with [y] => [BLit (Lit NoSign (ACmp mv [(CEq, TVar y)]))] | _ => [] end)
    ++ map (fun b => BLit (Lit NoSign (ACmp mv [b]))) (agg_bounds lg rg)
    ++ lits_without_vars in
  ([set_body rule body],
   match rule with
   | SRule _ h _ => store_aggregate_head rd f h rest_vars max_var new_name
   | _ => store_aggregate_for_minimize f rest_vars max_var new_name
   end).

(* ================================================================================================ *)
(* _create_aggregate_replacement                                                                    *)
(* ================================================================================================ *)
Definition create_aggregate_replacement (is_max: bool) (weight: term) (cond: list lit) (rest_vars: list term)
           (new_predicate: pred) (lits_with_vars: list bodyelem) : M (list stmt) :=
  mbind (create_domain_top new_predicate) (fun dom_rules =>
  mbind (fun st => (st, domain_predicate st new_predicate)) (fun dp =>
  let an : anon := (dp, seq 0 (snd new_predicate)) in
  mbind (create_next_pred_for_annotated_pred an 0) (fun next_rules =>
  mbind (max_anon_predicate an 0) (fun mm0 =>
  mbind (if is_max then min_anon_predicate an 0 else mret mm0) (fun minmax_pred =>
  mbind (chain_pred an 0 is_max) (fun chain_p =>
  mbind (next_anon_predicate an 0) (fun next_p =>
  let chain_name := fst chain_p in
  let prev_agg := if is_max then PREV else NEXT in
  let next_agg := if is_max then NEXT else PREV in
  let nextlit := symlit (fst next_p) [PREV; NEXT] NoSign in
  let r_aux := mk_rule (symlit chain_name (rest_vars ++ [weight]) NoSign) (map BLit cond ++ lits_with_vars) in
  let r_chain := mk_rule (symlit chain_name (rest_vars ++ [prev_agg]) NoSign)
                   [BLit (symlit chain_name (rest_vars ++ [next_agg]) NoSign); BLit nextlit] in
  let r_res := mk_rule (symlit (fst new_predicate) (rest_vars ++ [prev_agg]) NoSign)
                 [BLit (symlit chain_name (rest_vars ++ [prev_agg]) NoSign);
                  BCond (symlit chain_name (rest_vars ++ [next_agg]) Neg) [nextlit]] in
  let border := if is_max then SInf else SSup in
  let var_x := TVar "X" in
  let r_border := mk_rule (symlit (fst new_predicate) (rest_vars ++ [TSym border]) NoSign)
                    ([BLit (symlit (fst minmax_pred) [var_x] NoSign);
                      BLit (symlit chain_name (rest_vars ++ [var_x]) Neg)] ++ lits_with_vars) in
  mret (dom_rules ++ next_rules ++ [r_aux; r_chain; r_res; r_border])))))))).

(* ================================================================================================ *)
(* _chain_translation                                                                               *)
(* ================================================================================================ *)
(* the loop over rule.body: (rest_vars, lits_with_vars, lits_without_vars) *)
Definition split_body (agg: lit) (inside: vset) (body: list bodyelem) : vset * list bodyelem * list bodyelem :=
  fold_left (fun (acc: vset * list bodyelem * list bodyelem) (blit: bodyelem) =>
               let '(rv, lw, lwo) := acc in
               if bodyelem_eqb blit (BLit agg) then acc
               else
                 let blit_vars := sof (vars_bodyelem blit) in
                 if nonempty (sinter blit_vars inside) then (supdate rv blit_vars, lw ++ [blit], lwo)
                 else (rv, lw, lwo ++ [blit]))
            body ([], [], []).

Definition direction_name (f: aggfun) : string := match f with FMax => "max" | _ => "min" end.
(* f"__{direction}_{number_of_aggregate}_{str(rule.location.begin.line)}" with number_of_aggregate = 0 *)
Definition result_name (f: aggfun) (line: nat) : string :=
  ("__" ++ direction_name f ++ "_" ++ string_of_nat 0 ++ "_" ++ string_of_nat line)%string.

Definition is_fmax (f: aggfun) : bool := match f with FMax => true | _ => false end.

Definition chain_translation (rd: rdstate) (rule: stmt) (agg: lit) : M (list stmt * list mmpred) :=
  match agg with
  | Lit s (ABodyAgg lg f es rg) =>
      match es with
      | [] => mraise "AssertionError"                       (* assert len(agg.atom.elements) == 1 *)
      | _ :: _ :: _ => mret ([rule], [])
      | [elem] =>
          match fst elem with
          | [] => mraise "IndexError"                       (* elem.terms[0] *)
          | weight :: _ =>
              let new_name := result_name f (stmt_line rule) in
              let new_predicate : pred := (new_name, 1) in
              let headatom := ASym (TFun new_name [weight] false) in
              let inside := sof (flat_map vars_belem es) in
              let '(rv0, lits_with_vars, lits_without_vars) := split_body agg inside (stmt_body rule) in
              let rv :=
                match rule with
                | SMin _ w p ts _ =>
                    fold_left (fun acc t => supdate acc (sinter inside (sof (vars_term t)))) (w :: p :: ts) rv0
                | _ => rv0
                end in
              let rest_vars := map TVar (sort_strings_as_vars rv) in
              let conds := map BLit (snd elem) ++ lits_with_vars in
              mbind (fun st => match add_domain_rule st new_predicate [(headatom, conds)] with
                               | Ok st' => (st', Ok tt)
                               | Raise k => (st, Raise k)
                               | OutOfFragment => (st, OutOfFragment)
                               | OutOfFuel => (st, OutOfFuel)
                               end) (fun _ =>
              mbind mget (fun st =>
              if negb (has_domain st new_predicate) then mret ([rule], [])
              else
                mbind (create_aggregate_replacement (is_fmax f) weight (snd elem) rest_vars new_predicate lits_with_vars)
                      (fun ret =>
                let r := replace_orig rd rule f lg rg new_name rest_vars lits_without_vars in
                mret (ret ++ fst r, snd r))))
          end
      end
  | _ => mraise "AttributeError"
  end.

(* ================================================================================================ *)
(* _process_rule                                                                                    *)
(* ================================================================================================ *)
Definition cmp_lt (c: cmp) : bool := match c with CLt | CLe => true | _ => false end.
Definition cmp_gt (c: cmp) : bool := match c with CGt | CGe => true | _ => false end.

(* the big condition of _process_rule (right_guard is None) *)
Definition simple_case (s: sign) (f: aggfun) (c: cmp) : bool :=
  let lt := cmp_lt c in
  let gt := cmp_gt c in
  match s with
  | NoSign => orb (andb (is_fmax f) lt) (andb (negb (is_fmax f)) gt)
  | Neg => orb (andb (negb (is_fmax f)) lt) (andb (is_fmax f) gt)
  | NegNeg => false
  end.

Definition process_rule (rd: rdstate) (rule: stmt) : M (list stmt * list mmpred) :=
  match minmax_agg (stmt_body rule) with
  | None => mret ([rule], [])
  | Some agg =>
      match agg with
      | Lit s (ABodyAgg lg f es rg) =>
          mbind mget (fun st =>
          mbind (mlift (any_r (translatable_element st) es)) (fun b =>
          if negb b then mret ([rule], [])
          else
            match rg with
            | Some _ => chain_translation rd rule agg
            | None =>
                match lg with
                | None => mraise "AttributeError"          (* agg.atom.left_guard.comparison *)
                | Some (c, _) =>
                    if simple_case s f c
                    then mbind (mlift (simple_translation rule agg)) (fun r => mret (r, []))
                    else chain_translation rd rule agg
                end
            end))
      | _ => mret ([rule], [])
      end
  end.

(* ================================================================================================ *)
(* _create_replacement                                                                              *)
(* ================================================================================================ *)
(* TranslationMap.translate_parameters: a list with holes (None) *)
Fixpoint list_set {A} (i: nat) (x: A) (l: list A) : list A :=
  match i, l with
  | _, [] => []
  | 0, _ :: r => x :: r
  | S i', y :: r => y :: list_set i' x r
  end.
Fixpoint translate_parameters_loop (mapping: list (option nat)) (oldidx: nat) (arguments: list term)
         (ret: list (option term)) : result (list (option term)) :=
  match mapping with
  | [] => Ok ret
  | None :: r => translate_parameters_loop r (S oldidx) arguments ret
  | Some index :: r =>
      if negb (Nat.ltb index (List.length arguments)) then Raise "AssertionError"
      else
        let ret := if Nat.leb (List.length ret) index then ret ++ repeat None (S index - List.length ret) else ret in
        match nth_error arguments oldidx with
        | None => Raise "IndexError"
        | Some a => translate_parameters_loop r (S oldidx) arguments (list_set index (Some a) ret)
        end
  end.
Definition translate_parameters (t: tmap) (arguments: list term) : result (list (option term)) :=
  translate_parameters_loop (tm_mapping t) 0 arguments [].

Fixpoint all_some {A} (l: list (option A)) : option (list A) :=
  match l with
  | [] => Some []
  | None :: _ => None
  | Some x :: r => option_map (cons x) (all_some r)
  end.

(* oldmax.atom.symbol.arguments *)
Definition oldmax_arguments (oldmax: bodyelem) : result (list term) :=
  match oldmax with
  | BLit (Lit _ (ASym (TFun _ args _))) => Ok args
  | _ => Raise "AttributeError"
  end.

(* returns the two (weight, terms, conditions) triples handed to `function`; C is the type of a
   condition (body element of a minimize statement / literal of an aggregate element) *)
Definition create_replacement {C} (inj: lit -> C) (mp: mmpred) (minimize: bool) (terms: list term)
           (oldmax: bodyelem) (rest_cond: list C) : M (list (term * list term * list C)) :=
  let '(aggtype, translation, idx) := mp in
  let negate_if (x: term) : term := if minimize then x else TUn UMinus x in
  let is_max := is_fmax aggtype in
  let prev := if is_max then PREV else NEXT in
  let next_ := if is_max then NEXT else PREV in
  let weight1 := negate_if (TBin BMinus next_ prev) in
  let newpred := tm_new translation in
  mbind (chain_pred ((fst newpred, 1), [0]) 0 is_max) (fun chain_p =>
  let chain_name := fst chain_p in
  let new_terms1 := TFun chain_name [PREV; NEXT] false :: terms in
  mbind (mlift (oldmax_arguments oldmax)) (fun oargs =>
  mbind (mlift (translate_parameters translation oargs)) (fun newargs0 =>
  let newargs1 := map (fun ix : nat * option term => if Nat.eqb (fst ix) idx then Some next_ else snd ix)
                      (combine (seq 0 (List.length newargs0)) newargs0) in
  match all_some newargs1 with
  | None => mraise "AssertionError"                        (* assert isinstance(arg, AST) *)
  | Some newargs =>
      let chainpred := symlit chain_name newargs NoSign in
      mbind (dom_named_predicate (fst newpred) 1) (fun dompred =>
      let an : anon := (dompred, seq 0 (snd dompred)) in
      mbind (next_anon_predicate an 0) (fun next_p =>
      let nextpred := symlit (fst next_p) [PREV; NEXT] NoSign in
      let e1 := (weight1, new_terms1, [inj chainpred; inj nextpred] ++ rest_cond) in
      let infsup := if is_max then SSup else SInf in
      let weight2 := negate_if next_ in
      let new_terms2 := TFun chain_name [TSym infsup; next_] false :: terms in
      mbind (if is_max then min_anon_predicate an 0 else max_anon_predicate an 0) (fun mmp =>
      let minmaxlit := symlit (fst mmp) [next_] NoSign in
      let e2 := (weight2, new_terms2, [inj chainpred; inj minmaxlit] ++ rest_cond) in
      mret [e1; e2])))
  end))).

(* ================================================================================================ *)
(* _replace_results_in_minimize                                                                     *)
(* ================================================================================================ *)
(* minimizes: dict[tuple[AST, ...], list[AST]] (insertion ordered, keys compared structurally) *)
Definition minimizes_t := list (list term * list stmt).
Fixpoint minimizes_add (key: list term) (s: stmt) (m: minimizes_t) : minimizes_t :=
  match m with
  | [] => [(key, [s])]
  | (k, v) :: r => if list_eqb term_eqb key k then (k, v ++ [s]) :: r else (k, v) :: minimizes_add key s r
  end.

(* the weight is `V` (minimize) or `-V` (maximize) *)
Definition simple_weight (w: term) : option (string * bool) :=
  match w with
  | TVar x => Some (x, true)
  | TUn UMinus (TVar x) => Some (x, false)
  | _ => None
  end.

Definition nosign_negneg : list sign := [NoSign; NegNeg].

(* the loop that splits the conditions into oldmax (the last match) and the rest *)
Definition split_conditions {C} (preds_of: C -> list pred) (mp: option mmpred) (conds: list C)
  : option C * list C :=
  fold_left (fun (acc: option C * list C) (cond: C) =>
               match mp with
               | Some m =>
                   if list_eqb pred_eqb (preds_of cond) [tm_old (snd (fst m))] then (Some cond, snd acc)
                   else (fst acc, snd acc ++ [cond])
               | None => (fst acc, snd acc ++ [cond])
               end) conds (None, []).

Definition replace_results_in_minimize (mmps: list mmpred) (minimizes: minimizes_t) (stm: stmt) : M (list stmt) :=
  match stm with
  | SMin _ w p ts body =>
      match mmps with
      | [] => mret [stm]
      | _ =>
          let term_tuple := w :: p :: ts in
          match simple_weight w with
          | None => mret [stm]
          | Some (varname, minimize) =>
              let preds := map snd (flat_map (bodyelem_predicates nosign_negneg) body) in
              let unsafe :=
                existsb (fun kv : list term * list stmt =>
                           andb (Unify.potentially_unifying_sequence (fst kv) term_tuple)
                                (existsb (fun x => negb (stmt_eqb x stm)) (snd kv))) minimizes in
              let minmaxpred :=
                if unsafe then None else find (fun m : mmpred => pmem (tm_old (snd (fst m))) preds) mmps in
              match minmaxpred with
              | None => mret [stm]
              | Some mp =>
                  let '(oldmax, rest_cond) :=
                    split_conditions (fun c => map snd (bodyelem_predicates [NoSign] c)) (Some mp) body in
                  match oldmax with
                  | None => mraise "AssertionError"
                  | Some om =>
                      let old_vars := sdiff (sof (vars_bodyelem om)) [varname] in
                      let term_vars := flat_map characteristic_variables ts in
                      if negb (ssubset old_vars term_vars) then mret [stm]
                      else
                        mbind (create_replacement BLit mp minimize ts om rest_cond) (fun l =>
                        mret (map (fun x : term * list term * list bodyelem =>
                                     SMin loc_line (fst (fst x)) p (snd (fst x)) (snd x)) l))
                  end
              end
          end
      end
  | _ => mraise "AssertionError"
  end.

(* ================================================================================================ *)
(* _split_element, _replace_results_in_sum_agg_elem, _replace_results_in_sum_agg, ..._sum            *)
(* ================================================================================================ *)
Definition split_element (mmps: list mmpred) (elem: belem) (rest_elems: list belem)
  : option lit * option mmpred * list lit :=
  let preds := map snd (flat_map (literal_predicate nosign_negneg) (snd elem)) in
  let unsafe := existsb (fun x : belem => Unify.potentially_unifying_sequence (fst x) (fst elem)) rest_elems in
  let minmaxpred :=
    if unsafe then None else find (fun m : mmpred => pmem (tm_old (snd (fst m))) preds) mmps in
  let '(oldmax, rest_cond) :=
    split_conditions (fun c => map snd (literal_predicate [NoSign] c)) minmaxpred (snd elem) in
  (oldmax, minmaxpred, rest_cond).

Definition replace_results_in_sum_agg_elem (mmps: list mmpred) (elem: belem) (rest_elems: list belem)
  : M (list belem) :=
  match fst elem with
  | [] => mraise "IndexError"                              (* term_tuple[0] *)
  | t0 :: trest =>
      let '(old_max, minmaxpred, rest_cond) := split_element mmps elem rest_elems in
      match minmaxpred with
      | None => mret [elem]
      | Some mp =>
          match old_max with
          | None => mraise "AssertionError"
          | Some om =>
              match simple_weight t0 with
              | None => mret [elem]
              | Some (varname, minimize) =>
                  let old_vars := sdiff (sof (vars_lit om)) [varname] in
                  let term_vars := flat_map characteristic_variables trest in
                  if negb (ssubset old_vars term_vars) then mret [elem]
                  else
                    mbind (create_replacement (fun l => l) mp minimize trest (BLit om) rest_cond) (fun l =>
                    mret (map (fun x : term * list term * list lit => (fst (fst x) :: snd (fst x), snd x)) l))
              end
          end
      end
  end.

Definition replace_results_in_sum_agg (mmps: list mmpred) (s: sign) (lg: option guard) (f: aggfun)
           (es: list belem) (rg: option guard) : M lit :=
  mbind (mconcat (fun elem => replace_results_in_sum_agg_elem mmps elem
                                (filter (fun x => negb (belem_eqb x elem)) es)) es) (fun elements =>
  mret (Lit s (ABodyAgg lg f elements rg))).

Definition is_sum_lit (b: bodyelem) : bool :=
  match b with
  | BLit (Lit _ (ABodyAgg _ FSum _ _)) | BLit (Lit _ (ABodyAgg _ FSumPlus _ _)) => true
  | _ => false
  end.

Fixpoint replace_sum_body (mmps: list mmpred) (body: list bodyelem) : M (list bodyelem) :=
  match body with
  | [] => mret []
  | b :: r =>
      mbind (match b with
             | BLit (Lit s (ABodyAgg lg f es rg)) =>
                 if is_sum_lit b then mbind (replace_results_in_sum_agg mmps s lg f es rg) (fun l => mret (BLit l))
                 else mret b
             | _ => mret b
             end) (fun b' =>
      mbind (replace_sum_body mmps r) (fun r' => mret (b' :: r')))
  end.

Definition replace_results_in_sum (mmps: list mmpred) (stm: stmt) : M (list stmt) :=
  match stm with
  | SRule _ h body => mbind (replace_sum_body mmps body) (fun body' => mret [SRule loc_line h body'])
  | _ => mraise "AssertionError"
  end.

(* ================================================================================================ *)
(* _replace_results_in_x, execute                                                                   *)
(* ================================================================================================ *)
Definition replace_results_in_x (mmps: list mmpred) (minimizes: minimizes_t) (prg: list stmt) : M (list stmt) :=
  mconcat (fun stm =>
             match stm with
             | SMin _ _ _ _ _ => replace_results_in_minimize mmps minimizes stm
             | SRule _ _ body => if existsb is_sum_lit body then replace_results_in_sum mmps stm else mret [stm]
             | _ => mret [stm]
             end) prg.

(* the first loop of execute: (ret, _minmax_preds, minimizes, results of the single _process_rule calls) *)
Definition phase1_t := (list stmt * list mmpred * minimizes_t * list (list stmt))%type.
Fixpoint execute_loop (rd: rdstate) (prg: list stmt) (acc: phase1_t) : M phase1_t :=
  match prg with
  | [] => mret acc
  | rule :: r =>
      let '(ret, mmps, mins, calls) := acc in
      match rule with
      | SRule _ _ _ | SMin _ _ _ _ _ =>
          mbind (process_rule rd rule) (fun x =>
          let mins' := fold_left (fun m nr => match nr with
                                              | SMin _ w p ts _ => minimizes_add (w :: p :: ts) nr m
                                              | _ => m
                                              end) (fst x) mins in
          execute_loop rd r (ret ++ fst x, mmps ++ snd x, mins', calls ++ [fst x]))
      | _ => execute_loop rd r (ret ++ [rule], mmps, mins, calls)
      end
  end.

(* minimize statements whose Variable nodes are not all visible *)
Definition min_in_fragment (s: stmt) : bool :=
  match s with
  | SMin _ _ _ _ b => negb (existsb bad_bodyelem b)
  | _ => true
  end.

(* MinMaxAggregator(ctor_prg, input_predicates): (rule_dependency, domain_predicates) *)
Definition mm_init (ctor_prg: list stmt) (ins: list pred) : result (rdstate * dstate) :=
  if negb (forallb min_in_fragment ctor_prg) then OutOfFragment else
  rbind (dp_init (init_names ctor_prg ins) ctor_prg) (fun st => Ok (rd_init ctor_prg, st)).

Definition run {A} (m: M A) (st: dstate) : result A := snd (m st).

Definition phase1 (rd: rdstate) (prg: list stmt) : M phase1_t := execute_loop rd prg ([], [], [], []).

Definition execute_m (rd: rdstate) (prg: list stmt) : M (list stmt) :=
  mbind (phase1 rd prg) (fun x =>
  let '(ret, mmps, mins, _) := x in
  replace_results_in_x mmps mins ret).

(* MinMaxAggregator(ctor_prg, ins).execute(prg) *)
Definition mm_execute (ctor_prg: list stmt) (ins: list pred) (prg: list stmt) : result (list stmt) :=
  if negb (forallb min_in_fragment prg) then OutOfFragment else
  rbind (mm_init ctor_prg ins) (fun x => run (execute_m (fst x) prg) (snd x)).

(* ================================================================================================ *)
(* entry points and comparison helpers for vlib/fam_minmax.py                                       *)
(* ================================================================================================ *)
Definition omap_eqb (a b: list (option nat)) : bool := list_eqb (option_eqb Nat.eqb) a b.
Definition tmap_eqb (a b: tmap) : bool :=
  andb (pred_eqb (tm_old a) (tm_old b)) (andb (pred_eqb (tm_new a) (tm_new b)) (omap_eqb (tm_mapping a) (tm_mapping b))).
Definition mmpred_eqb (a b: mmpred) : bool :=
  andb (aggfun_eqb (fst (fst a)) (fst (fst b))) (andb (tmap_eqb (snd (fst a)) (snd (fst b))) (Nat.eqb (snd a) (snd b))).
Definition stmts_eqb := list_eqb stmt_eqb.

(* _characteristic_variables *)
Definition chk_charvars (t: term) (obs: list string) : bool := list_eqb String.eqb (characteristic_variables t) obs.

(* _minmax_agg and _translatable_element on every rule / minimize of a program: per statement
   None (no min/max aggregate) or the aggregate and the list of answers for its elements; the observed
   list stops at the first exception *)
Definition translatable_list (st: dstate) (es: list belem) : list (result bool) := map (translatable_element st) es.
Definition analysis_of (st: dstate) (s: stmt) : option (lit * list (result bool)) :=
  match minmax_agg (stmt_body s) with
  | Some (Lit sg (ABodyAgg lg f es rg)) => Some (Lit sg (ABodyAgg lg f es rg), translatable_list st es)
  | _ => None
  end.
Definition analysis_eqb (a b: option (lit * list (result bool))) : bool :=
  option_eqb (pair_eqb lit_eqb (list_eqb (result_eqb Bool.eqb))) a b.
Definition chk_analysis (prg: list stmt) (ins: list pred) (obs: result (list (option (lit * list (result bool))))) : bool :=
  match mm_init prg ins with
  | OutOfFragment => true
  | Ok x =>
      let rules := filter (fun s => match s with SRule _ _ _ | SMin _ _ _ _ _ => true | _ => false end) prg in
      result_eqb (list_eqb analysis_eqb) (Ok (map (analysis_of (snd x)) rules)) obs
  | Raise k => result_eqb (list_eqb analysis_eqb) (Raise k) obs
  | OutOfFuel => false
  end.

(* _simple_translation(rule, first min/max aggregate of rule) on the i-th statement; needs no object state *)
Definition simple_translation_at (prg: list stmt) (i: nat) : result (list stmt) :=
  match nth_error prg i with
  | Some rule =>
      if negb (min_in_fragment rule) then OutOfFragment else
      match rule with
      | SRule _ h b => if orb (bad_head h) (existsb bad_bodyelem b) then OutOfFragment else
          match minmax_agg (stmt_body rule) with Some agg => simple_translation rule agg | None => OutOfFragment end
      | _ => match minmax_agg (stmt_body rule) with Some agg => simple_translation rule agg | None => OutOfFragment end
      end
  | None => OutOfFragment
  end.

(* _chain_translation(rule, first min/max aggregate) on the i-th statement of a fresh object:
   (returned statements, _minmax_preds afterwards) *)
Definition chain_translation_at (prg: list stmt) (ins: list pred) (i: nat) : result (list stmt * list mmpred) :=
  if negb (forallb min_in_fragment prg) then OutOfFragment else
  rbind (mm_init prg ins) (fun x =>
  match nth_error prg i with
  | Some rule =>
      match minmax_agg (stmt_body rule) with
      | Some agg => run (chain_translation (fst x) rule agg) (snd x)
      | None => OutOfFragment
      end
  | None => OutOfFragment
  end).
Definition chk_chain (model obs: result (list stmt * list mmpred)) : bool :=
  chk_result (pair_eqb stmts_eqb (list_eqb mmpred_eqb)) model obs.

(* _process_rule on every rule / minimize of the program with one object (as the first loop of execute):
   (results of the calls, _minmax_preds) *)
Definition process_rules (prg: list stmt) (ins: list pred) : result (list (list stmt) * list mmpred) :=
  if negb (forallb min_in_fragment prg) then OutOfFragment else
  rbind (mm_init prg ins) (fun x =>
  rbind (run (phase1 (fst x) prg) (snd x)) (fun r =>
  let '(_, mmps, _, calls) := r in Ok (calls, mmps))).
Definition chk_process (model obs: result (list (list stmt) * list mmpred)) : bool :=
  chk_result (pair_eqb (list_eqb stmts_eqb) (list_eqb mmpred_eqb)) model obs.

(* after the first loop of execute on prg: helper(stm) for an arbitrary statement stm *)
Definition after_phase1 {A} (prg: list stmt) (ins: list pred)
           (k: list mmpred -> minimizes_t -> M A) : result A :=
  if negb (forallb min_in_fragment prg) then OutOfFragment else
  rbind (mm_init prg ins) (fun x =>
  run (mbind (phase1 (fst x) prg) (fun r => let '(_, mmps, mins, _) := r in k mmps mins)) (snd x)).

Definition replace_minimize_after (prg: list stmt) (ins: list pred) (stm: stmt) : result (list stmt) :=
  if negb (min_in_fragment stm) then OutOfFragment else
  after_phase1 prg ins (fun mmps mins => replace_results_in_minimize mmps mins stm).
Definition replace_sum_after (prg: list stmt) (ins: list pred) (stm: stmt) : result (list stmt) :=
  after_phase1 prg ins (fun mmps _ => replace_results_in_sum mmps stm).
(* _split_element(loc, elem, rest_elems) *)
Definition split_element_after (prg: list stmt) (ins: list pred) (elem: belem) (rest_elems: list belem)
  : result (option lit * option mmpred * list lit) :=
  after_phase1 prg ins (fun mmps _ => mret (split_element mmps elem rest_elems)).
Definition chk_split_element (model obs: result (option lit * option mmpred * list lit)) : bool :=
  chk_result (pair_eqb (pair_eqb (option_eqb lit_eqb) (option_eqb mmpred_eqb)) (list_eqb lit_eqb)) model obs.
