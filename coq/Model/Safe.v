(* Executable model of *clingo's* safety check (gringo 5.8.2), determined experimentally: the
   correspondence family `safe_stmt` (vlib/fam_safe.py) is the arbiter (clingo rejects a statement
   with "unsafe variables in: ... note: 'X' is unsafe"; acceptance and the set of names are compared).
   No proofs here (see Link/SafeSpec.v).

   The rules that were found (every line was probed against clingo 5.8.2):

   * Static simplification first (`simp`): constants are folded with every operator (32 bit; / and \
     truncate, a**negative = 0, 0**negative undefined) EXCEPT a product with the constant 0, which is
     kept (`0*5`, `X*(1-1)` stay opaque); m*X+n is recognised through +,-,* with numbers and unary minus;
     an interval a..b and a call @f(..) are replaced by a fresh variable R (with the literal R = a..b
     resp. R = @f(..) added to the scope, which provides R once the variables of a, b are bound).
     An arithmetic operator applied to a symbolic constant / function term / string / #inf / #sup, a
     division by a constant 0, |.| or ~ of a non-number are statically UNDEFINED: gringo drops the
     enclosing scope -- the whole statement when the term is at level 0 (the statement is then
     accepted), the aggregate element / choice element when it is inside one; a body conditional
     literal or disjunction element is dropped when its condition is undefined, and keeps only its
     condition when its head is (`prune_stmt`).
   * Scopes.  Global variables = variables with an occurrence at level 0: plain body literals,
     guards of body aggregates, a plain head literal, guards of a head aggregate / choice, the terms
     of a weak constraint, the term of a #show statement.  Everything inside an aggregate element,
     a conditional literal (body or disjunctive head) or a choice element is local unless the
     variable is global.  A choice / head aggregate with exactly ONE element (after the pruning) and
     NO guards is rewritten: its condition moves to the body and the element becomes a plain head
     (the moved variables are bound like body variables but stay invisible to the other scopes).
     Body aggregates without any guard are dropped before the check (nothing in them is checked).
   * Binding (all scopes): least fixpoint (`closure`) of rules "deps => provides":
       - positive symbolic atom p(ts): {} => bindvars(ts);
       - l = r  (sign positive or `not not`; or `not l != r` with a single guard; each `=` link of a
         positive chain): vars(r) => bindvars(l) and vars(l) => bindvars(r) (whole side, tuples are
         not decomposed);
       - positive aggregate with guard `t = #agg{..}` / `#agg{..} = t`:
         (global variables occurring inside the elements) => bindvars(t);
       - R = a..b / R = @f(ts): vars(a,b) => R;
       - a program variable (or `_`) with a finite lower AND upper integer bound is bound: {} => X.
     bindvars(t): the variable of t if t simplifies to m*X+n; the arguments of function symbols /
     tuples; below a unary minus applied to a function term.  Nothing below |.|, ~, /, \, **, &, ?,
     ^, X+Y, X*Y, 0*X.  Negative / double negated atoms, other comparisons, aggregates bind nothing.
     unsafe = needed variables that are not in the fixpoint (so unsafety cascades).
   * Bounds (gringo's IESolver; only finiteness matters): every comparison `l op r` (op in
     <,<=,>,>=,=; a negated single comparison is inverted) whose sides are linear (sums of c*X, numbers,
     interval variables) gives inequalities sum c_i*X_i + c >= 0, from which lb(X_i) (c_i>0) resp.
     ub(X_i) (c_i<0) follows once every other X_j has an upper (c_j>0) resp. lower (c_j<0) bound.
     R = a..b gives R >= a and R <= b.  In an equality a non-invertible side t is also represented by
     an auxiliary variable A (shared by equal terms) with A = t, which only carries bounds.
     Local scopes inherit the bounds of the global scope BY NAME and never bind a variable of the global
     solver through bounds.  Contradictory bounds (lb > ub, 3 < 1) make every variable of the scope's
     inequalities bounded: outside the fragment here.
   * Local scopes: globals count as bound (even unsafe ones).
       - body aggregate element  ts : cond          binders cond; ts needs binding
       - old style element       l : cond           binders l :: cond
       - choice / head aggregate element ts : l : cond   binders cond; l, ts need binding
       - body conditional literal l : cond          first cond alone (its variables must be bound by
                                                    it), then l binds like a body literal (no bounds from l)
       - disjunction element     l : cond           first cond alone, then l needs binding
   * `_` : every occurrence is a variable of its own; inside a negative symbolic atom and in the head
     of a disjunction it is projected away when it is reached through function symbols only.

   Out of the fragment (`OutOfFragment`): pools, theory atoms, #external/#const/... statements,
   constant folding leaving 32 bits, negated comparison chains `not a < b < c` (gringo splits the
   statement in several ones), aggregates inside conditions (not produced by the parser), intervals
   in the head literal of a disjunction, and statements whose integer bounds are contradictory or do
   not reach a fixpoint quickly. *)
From Coq Require Import List String ZArith Bool Arith.
From NGO Require Import Syntax.Ast.
Import ListNotations.
Open Scope string_scope. Open Scope list_scope.

(* ---------- least fixpoint of binding rules ---------- *)
Section Closure.
  Context {A: Type} (eqb: A -> A -> bool).
  Definition amem (x: A) (s: list A) : bool := existsb (eqb x) s.
  Definition asub (a b: list A) : bool := forallb (fun x => amem x b) a.
  Definition adiff (a b: list A) : list A := filter (fun x => negb (amem x b)) a.
  Fixpoint adedup (l: list A) : list A :=
    match l with [] => [] | x :: r => if amem x r then adedup r else x :: adedup r end.
  Definition brule := (list A * list A)%type.          (* deps => provides *)
  Definition fires (B: list A) (r: brule) : bool := asub (fst r) B.
  (* fire every rule whose deps are bound, remove them, repeat *)
  Fixpoint closure_aux (n: nat) (rules: list brule) (B: list A) : list A :=
    match n with
    | 0 => B
    | S n' =>
        match filter (fires B) rules with
        | [] => B
        | fired => closure_aux n' (filter (fun r => negb (fires B r)) rules) (B ++ flat_map snd fired)
        end
    end.
  Definition closure (rules: list brule) (B: list A) : list A := closure_aux (List.length rules) rules B.
End Closure.

Fixpoint imap_from {A B} (i: nat) (f: nat -> A -> B) (l: list A) : list B :=
  match l with [] => [] | a :: r => f i a :: imap_from (S i) f r end.
Definition imap {A B} (f: nat -> A -> B) (l: list A) : list B := imap_from 0 f l.

(* ---------- static simplification of terms (gringo's Term::simplify, as far as safety sees it) ---------- *)
Inductive sval :=
| VOut                           (* pool / constant folding leaves 32 bits: out of the fragment *)
| VUndef                         (* statically undefined operation: gringo drops the enclosing scope *)
| VNum (z: Z)
| VLin (x: string) (m n: Z)      (* m*X+n, exactly one variable occurrence; an interval counts as the variable "#R" *)
| VSym                           (* symbolic constant, function term, tuple (may be negated with -) *)
| VStr                           (* string, #inf, #sup *)
| VOpaque.                       (* anything else: no binding through it *)

Definition fits (z: Z) : bool := andb (-2147483648 <=? z)%Z (z <=? 2147483647)%Z.
Definition vnum (z: Z) : sval := if fits z then VNum z else VOut.
Definition vlin (x: string) (m n: Z) : sval := if andb (fits m) (fits n) then VLin x m n else VOut.
Definition is_out (v: sval) : bool := match v with VOut => true | _ => false end.
Definition is_undef (v: sval) : bool := match v with VUndef => true | _ => false end.
(* VOut if some argument is VOut, else VUndef if some argument is VUndef *)
Definition bad_of (vs: list sval) : option sval :=
  if existsb is_out vs then Some VOut else if existsb is_undef vs then Some VUndef else None.

Definition zpow (a b: Z) : sval :=
  if (b <? 0)%Z then (if (a =? 0)%Z then VUndef else VNum 0)
  else if (a =? 0)%Z then VNum (if (b =? 0)%Z then 1 else 0)%Z
  else if (a =? 1)%Z then VNum 1
  else if (a =? -1)%Z then VNum (if Z.even b then 1 else -1)%Z
  else if (31 <? b)%Z then VOut else vnum (Z.pow a b).

Definition fold_bin (o: binop) (a b: Z) : sval :=
  match o with
  | BPlus => vnum (a + b) | BMinus => vnum (a - b) | BMul => vnum (a * b)
  | BDiv => if (b =? 0)%Z then VUndef else vnum (Z.quot a b)
  | BMod => if (b =? 0)%Z then VUndef else vnum (Z.rem a b)
  | BPow => zpow a b
  | BAnd => vnum (Z.land a b) | BOr => vnum (Z.lor a b) | BXor => vnum (Z.lxor a b)
  end.
Definition is_zero (v: sval) : bool := match v with VNum z => (z =? 0)%Z | _ => false end.
Definition is_divmod (o: binop) : bool := match o with BDiv | BMod => true | _ => false end.

Fixpoint simp (t: term) : sval :=
  match t with
  | TVar x => VLin x 1 0
  | TSym (SNum z) => vnum z
  | TSym (SFun _ _ _) => VSym
  | TSym _ => VStr
  | TUn o a =>
      match simp a with
      | VOut => VOut
      | VUndef => VUndef
      | VNum z => match o with UMinus => vnum (- z) | UNeg => vnum (Z.lnot z) | UAbs => vnum (Z.abs z) end
      | VLin x m n => match o with UMinus => vlin x (- m) (- n) | _ => VOpaque end
      | VSym => match o with UMinus => VSym | _ => VUndef end
      | VStr => VUndef
      | VOpaque => VOpaque
      end
  | TBin o l r =>
      match simp l, simp r with
      | VOut, _ | _, VOut => VOut
      | VUndef, _ | _, VUndef => VUndef
      | VSym, _ | VStr, _ | _, VSym | _, VStr => VUndef
      | sl, sr =>
          if andb (is_divmod o) (is_zero sr) then VUndef else
          (* a product with the constant 0 is kept as it is (the other side may be undefined at run time) *)
          if andb (match o with BMul => true | _ => false end) (orb (is_zero sl) (is_zero sr)) then VOpaque else
          match sl, sr with
          | VNum a, VNum b => fold_bin o a b
          | VNum a, VLin x m n =>
              match o with
              | BPlus => vlin x m (a + n) | BMinus => vlin x (- m) (a - n) | BMul => vlin x (a * m) (a * n)
              | _ => VOpaque end
          | VLin x m n, VNum b =>
              match o with
              | BPlus => vlin x m (n + b) | BMinus => vlin x m (n - b) | BMul => vlin x (m * b) (n * b)
              | _ => VOpaque end
          | _, _ => VOpaque
          end
      end
  | TInterval l r => match bad_of [simp l; simp r] with Some v => v | None => VLin "#R" 1 0 end
  | TFun _ args ext =>
      (* a call @f(..) is replaced by a fresh variable S (with S = @f(..) in the scope), like an interval *)
      match bad_of (map simp args) with Some v => v | None => if ext then VLin "#R" 1 0 else VSym end
  | TPool _ => VOut
  end.

(* VOut / VUndef travel up to the root: 0 = every subterm is defined, 1 = undefined, 2 = out of the fragment *)
Definition tstat (t: term) : nat := match simp t with VOut => 2 | VUndef => 1 | _ => 0 end.
Definition term_ok (t: term) : bool := Nat.eqb (tstat t) 0.

(* ---------- names: program variables, anonymous variables, interval variables ----------
   An anonymous variable / interval is identified by the literal it occurs in and its position
   (reversed path) inside it: equal literals share them, which is harmless. *)
Inductive name :=
| NVar (x: string)
| NAnon (o: lit) (p: list nat)
| NRange (o: lit) (p: list nat)
| NArith (t: term)                 (* auxiliary variable A of a non-invertible side t of an equality (A = t); equal
                                      terms share it; it only carries integer bounds (`Y = X*X, X*X = 9` bounds Y),
                                      it is never bound itself *)
| NArithL (o: lit) (p: list nat).  (* the same when t contains `_` (every `_` is a variable of its own) *)
Definition path_eqb (a b: list nat) : bool := list_eqb Nat.eqb a b.
Definition name_eqb (a b: name) : bool :=
  match a, b with
  | NVar x, NVar y => String.eqb x y
  | NAnon o p, NAnon o' p' => andb (lit_eqb o o') (path_eqb p p')
  | NRange o p, NRange o' p' => andb (lit_eqb o o') (path_eqb p p')
  | NArith t, NArith t' => term_eqb t t'
  | NArithL o p, NArithL o' p' => andb (lit_eqb o o') (path_eqb p p')
  | _, _ => false
  end.
Definition nmem := amem name_eqb.
Definition vname (o: lit) (p: list nat) (x: string) : name := if String.eqb x "_" then NAnon o p else NVar x.

(* variables of a term that need a binding; proj: `_` here is projected away *)
Fixpoint tnames (o: lit) (proj: bool) (p: list nat) (t: term) : list name :=
  match t with
  | TVar x => if andb proj (String.eqb x "_") then [] else [vname o p x]
  | TSym _ => []
  | TUn _ a => tnames o false (0 :: p) a
  | TBin _ l r => tnames o false (0 :: p) l ++ tnames o false (1 :: p) r
  | TInterval _ _ => [NRange o p]          (* gringo replaces a..b by a fresh variable R and adds R = a..b to the scope *)
  | TFun _ args true => [NRange o p]         (* likewise for a call @f(..) *)
  | TFun _ args false =>
      (fix go (i: nat) (l: list term) : list name :=
         match l with [] => [] | a :: r => tnames o proj (i :: p) a ++ go (S i) r end) 0 args
  | TPool alts =>
      (fix go (i: nat) (l: list term) : list name :=
         match l with [] => [] | a :: r => tnames o false (i :: p) a ++ go (S i) r end) 0 alts
  end.

(* the range literals R = a..b of a term: (variables of a and b) => R, and those variables need a binding *)
Fixpoint range_brules (o: lit) (p: list nat) (t: term) : list (brule (A:=name)) :=
  match t with
  | TVar _ | TSym _ => []
  | TUn _ a => range_brules o (0 :: p) a
  | TBin _ l r => range_brules o (0 :: p) l ++ range_brules o (1 :: p) r
  | TInterval l r =>
      (tnames o false (0 :: p) l ++ tnames o false (1 :: p) r, [NRange o p])
      :: range_brules o (0 :: p) l ++ range_brules o (1 :: p) r
  | TFun _ args ext =>
      (if ext
       then [((fix go (i: nat) (l: list term) : list name :=
                 match l with [] => [] | a :: r => tnames o false (i :: p) a ++ go (S i) r end) 0 args, [NRange o p])]
       else [])
      ++ (fix go (i: nat) (l: list term) : list (brule (A:=name)) :=
            match l with [] => [] | a :: r => range_brules o (i :: p) a ++ go (S i) r end) 0 args
  | TPool args =>
      (fix go (i: nat) (l: list term) : list (brule (A:=name)) :=
         match l with [] => [] | a :: r => range_brules o (i :: p) a ++ go (S i) r end) 0 args
  end.
Definition range_needed (o: lit) (p: list nat) (t: term) : list name := flat_map fst (range_brules o p t).

(* variables in binding position *)
Fixpoint bnames (o: lit) (p: list nat) (t: term) : list name :=
  match simp t with
  | VLin _ m _ => if (m =? 0)%Z then [] else tnames o false p t
  | _ =>
      match t with
      | TFun _ args false =>
          (fix go (i: nat) (l: list term) : list name :=
             match l with [] => [] | a :: r => bnames o (i :: p) a ++ go (S i) r end) 0 args
      | TUn UMinus a => match simp a with VSym => bnames o (0 :: p) a | _ => [] end
      | _ => []
      end
  end.

(* ---------- linear forms and inequalities  sum c_i * x_i + c >= 0 ---------- *)
Definition lform := (list (name * Z) * Z)%type.
Definition ie := lform.
Fixpoint ladd1 (x: name) (c: Z) (ts: list (name * Z)) : list (name * Z) :=
  match ts with
  | [] => [(x, c)]
  | (y, d) :: r => if name_eqb x y then (y, (d + c)%Z) :: r else (y, d) :: ladd1 x c r
  end.
Definition lnorm (f: lform) : lform :=
  (filter (fun yc => negb (snd yc =? 0)%Z) (fold_left (fun acc xc => ladd1 (fst xc) (snd xc) acc) (fst f) []), snd f).
Definition lscale (c: Z) (f: lform) : lform := (map (fun xc => (fst xc, (c * snd xc)%Z)) (fst f), (c * snd f)%Z).
Definition ladd (f g: lform) : lform := (fst f ++ fst g, (snd f + snd g)%Z).
Definition lsub (f g: lform) : lform := ladd f (lscale (-1) g).
Definition oadd (f g: option lform) : option lform :=
  match f, g with Some f, Some g => Some (ladd f g) | _, _ => None end.

Fixpoint linform (o: lit) (p: list nat) (t: term) : option lform :=
  match simp t with
  | VNum z => Some ([], z)
  | _ =>
      match t with
      | TVar x => Some ([(vname o p x, 1%Z)], 0%Z)
      | TUn UMinus a => option_map (lscale (-1)) (linform o (0 :: p) a)
      | TBin BPlus l r => oadd (linform o (0 :: p) l) (linform o (1 :: p) r)
      | TBin BMinus l r => oadd (linform o (0 :: p) l) (option_map (lscale (-1)) (linform o (1 :: p) r))
      | TBin BMul l r =>
          (* one factor must be a constant (no variable at all; here 0*3 does count as the constant 0) *)
          match linform o (0 :: p) l, linform o (1 :: p) r with
          | Some ([], c), Some g => Some (lscale c g)
          | Some f, Some ([], c) => Some (lscale c f)
          | _, _ => None
          end
      | TInterval _ _ | TFun _ _ true => Some ([(NRange o p, 1%Z)], 0%Z)
      | _ => None
      end
  end.

(* f >= 0 *)
Definition ie_ge0 (f: lform) : ie := lnorm f.
(* the interval variables of a term: R >= a, R <= b *)
Fixpoint range_ies (o: lit) (p: list nat) (t: term) : list ie :=
  match t with
  | TVar _ | TSym _ => []
  | TUn _ a => range_ies o (0 :: p) a
  | TBin _ l r => range_ies o (0 :: p) l ++ range_ies o (1 :: p) r
  | TInterval l r =>
      let R : lform := ([(NRange o p, 1%Z)], 0%Z) in
      (match linform o (0 :: p) l with Some a => [ie_ge0 (lsub R a)] | None => [] end)
      ++ (match linform o (1 :: p) r with Some b => [ie_ge0 (lsub b R)] | None => [] end)
      ++ range_ies o (0 :: p) l ++ range_ies o (1 :: p) r
  | TFun _ args _ | TPool args =>
      (fix go (i: nat) (l: list term) : list ie :=
         match l with [] => [] | a :: r => range_ies o (i :: p) a ++ go (S i) r end) 0 args
  end.

(* in an equality a non-invertible arithmetic side t is its auxiliary variable A, with A = t *)
Definition arith_name (o: lit) (p: list nat) (t: term) : name :=
  if existsb (String.eqb "_") (vars_term t) then NArithL o p else NArith t.
Definition is_opaque (t: term) : bool := match simp t with VOpaque => true | _ => false end.
Definition linform_rel (op: cmp) (o: lit) (p: list nat) (t: term) : option lform :=
  if andb (cmp_eqb op CEq) (is_opaque t) then Some ([(arith_name o p t, 1%Z)], 0%Z) else linform o p t.
Definition arith_def_ies (op: cmp) (o: lit) (p: list nat) (t: term) : list ie :=
  if andb (cmp_eqb op CEq) (is_opaque t)
  then match linform o p t with
       | Some f => let A : lform := ([(arith_name o p t, 1%Z)], 0%Z) in [ie_ge0 (lsub A f); ie_ge0 (lsub f A)]
       | None => []
       end
  else [].
(* l op r as inequalities; for `=` gringo has the literal `l' = r` (l' = l with its non-invertible
   arithmetic replaced by the auxiliary variable) and the reversed one `r' = l` *)
Definition op_ies (a b: option lform) (op: cmp) : list ie :=
  match a, b with
  | Some a, Some b =>
      let one : lform := ([], 1%Z) in
      match op with
      | CLt => [ie_ge0 (lsub (lsub b a) one)]
      | CLe => [ie_ge0 (lsub b a)]
      | CGt => [ie_ge0 (lsub (lsub a b) one)]
      | CGe => [ie_ge0 (lsub a b)]
      | CEq => [ie_ge0 (lsub b a); ie_ge0 (lsub a b)]
      | CNe => []
      end
  | _, _ => []
  end.
Definition rel_ies (o: lit) (pl: list nat) (l: term) (op: cmp) (pr: list nat) (r: term) : list ie :=
  arith_def_ies op o pl l ++ arith_def_ies op o pr r
  ++ op_ies (linform_rel op o pl l) (linform o pr r) op
  ++ (if cmp_eqb op CEq then op_ies (linform o pl l) (linform_rel op o pr r) op else []).

(* ---------- what a literal contributes to its scope ---------- *)
Definition neg_cmp (op: cmp) : cmp :=
  match op with CEq => CNe | CNe => CEq | CLt => CGe | CLe => CGt | CGt => CLe | CGe => CLt end.
Fixpoint c2cl_idx (k: nat) (lhs: term) (gs: list guard) : list (nat * term * cmp * nat * term) :=
  match gs with
  | [] => []
  | (op, rhs) :: r => (k, lhs, op, S k, rhs) :: c2cl_idx (S k) rhs r
  end.
(* the elementary relations a comparison literal stands for (conjunctively) *)
Definition eff_rels (s: sign) (t: term) (gs: list guard) : list (nat * term * cmp * nat * term) :=
  match s with
  | Neg => match gs with [(op, r)] => [(0, t, neg_cmp op, 1, r)] | _ => [] end
  | _ => c2cl_idx 0 t gs
  end.

Definition guard_terms (lg rg: option guard) : list (nat * cmp * term) :=
  (match lg with Some (c, t) => [(0, c, t)] | None => [] end)
  ++ (match rg with Some (c, t) => [(1, c, t)] | None => [] end).

(* the terms of a literal that live in the scope of the literal itself, with their positions *)
Definition level_terms (l: lit) : list (list nat * term) :=
  match l with
  | Lit _ (ASym t) => [([], t)]
  | Lit _ (ACmp t gs) => ([0], t) :: imap (fun i g => ([S i], snd g)) gs
  | Lit _ (ABodyAgg lg _ _ rg) | Lit _ (AAgg lg _ rg) => map (fun g => ([fst (fst g)], snd g)) (guard_terms lg rg)
  | _ => []
  end.
Definition is_neg_sym (l: lit) : bool :=
  match l with Lit NoSign _ => false | Lit _ (ASym _) => true | _ => false end.

Definition lit_range_brules (l: lit) : list (brule (A:=name)) :=
  flat_map (fun pt => range_brules l (fst pt) (snd pt)) (level_terms l).
Definition lit_range_needed (l: lit) : list name := flat_map fst (lit_range_brules l).
Definition lit_needed (l: lit) : list name :=
  flat_map (fun pt => tnames l (is_neg_sym l) (fst pt) (snd pt)) (level_terms l) ++ lit_range_needed l.
(* gin: the global variables occurring inside the elements of the aggregate *)
Definition lit_brules (gin: list name) (l: lit) : list (brule (A:=name)) :=
  lit_range_brules l ++
  match l with
  | Lit NoSign (ASym t) => [([], bnames l [] t)]
  | Lit s (ACmp t gs) =>
      flat_map (fun q => match q with (kl, a, op, kr, b) =>
                  if cmp_eqb op CEq
                  then [(tnames l false [kr] b, bnames l [kl] a); (tnames l false [kl] a, bnames l [kr] b)]
                  else [] end)
               (eff_rels s t gs)
  | Lit NoSign (ABodyAgg lg _ _ rg) | Lit NoSign (AAgg lg _ rg) =>
      flat_map (fun g => match g with (i, c, t) => if cmp_eqb c CEq then [(gin, bnames l [i] t)] else [] end)
               (guard_terms lg rg)
  | _ => []
  end.
Definition lit_range_ies (l: lit) : list ie :=
  flat_map (fun pt => range_ies l (fst pt) (snd pt)) (level_terms l).
Definition lit_ies (l: lit) : list ie :=
  (match l with
   | Lit s (ACmp t gs) =>
       flat_map (fun q => match q with (kl, a, op, kr, b) => rel_ies l [kl] a op [kr] b end) (eff_rels s t gs)
   | _ => []
   end) ++ lit_range_ies l.

(* ---------- finiteness of bounds: Horn rules over (is_lower, x) ---------- *)
Definition tag := (bool * name)%type.
Definition tag_eqb (a b: tag) : bool := andb (Bool.eqb (fst a) (fst b)) (name_eqb (snd a) (snd b)).
Definition ie_rules (e: ie) : list (brule (A:=tag)) :=
  map (fun xc =>
         (map (fun yd => ((snd yd <? 0)%Z, fst yd)) (filter (fun yd => negb (name_eqb (fst yd) (fst xc))) (fst e)),
          [((0 <? snd xc)%Z, fst xc)]))
      (fst e).
Definition ie_closure (ies: list ie) (I0: list tag) : list tag := closure tag_eqb (flat_map ie_rules ies) I0.
Definition is_aux (n: name) : bool := match n with NVar _ | NAnon _ _ => false | _ => true end.
(* program variables with a lower and an upper bound (auxiliary variables only carry bounds);
   `parent`: variables of the enclosing solver (not bound here) *)
Definition bounded_names (parent: list name) (I: list tag) : list name :=
  filter (fun n => andb (negb (is_aux n)) (negb (amem name_eqb n parent)))
         (map snd (filter (fun t => andb (fst t) (amem tag_eqb (false, snd t) I)) I)).

(* one scope: B0/I0 what is known from outside; result: bound names and bound facts *)
Definition solve (parent: list name) (B0: list name) (I0: list tag) (brs: list (brule (A:=name))) (ies: list ie)
  : list name * list tag :=
  let I := ie_closure ies I0 in
  (closure name_eqb brs (B0 ++ bounded_names parent I), I).

(* ---------- value propagation, only used to recognise contradictory bounds ---------- *)
Definition bnd := (option Z * option Z)%type.
Definition bmap := list (name * bnd).
Fixpoint bget (x: name) (m: bmap) : bnd :=
  match m with [] => (None, None) | (y, b) :: r => if name_eqb x y then b else bget x r end.
Fixpoint bset (x: name) (b: bnd) (m: bmap) : bmap :=
  match m with [] => [(x, b)] | (y, c) :: r => if name_eqb x y then (y, b) :: r else (y, c) :: bset x b r end.
Definition omax (a: option Z) (b: Z) : option Z := match a with None => Some b | Some a => Some (Z.max a b) end.
Definition omin (a: option Z) (b: Z) : option Z := match a with None => Some b | Some a => Some (Z.min a b) end.
Definition term_max (m: bmap) (yd: name * Z) : option Z :=
  let '(lo, hi) := bget (fst yd) m in
  if (0 <? snd yd)%Z then option_map (Z.mul (snd yd)) hi else option_map (Z.mul (snd yd)) lo.
Definition osum (l: list (option Z)) : option Z :=
  fold_left (fun acc x => match acc, x with Some a, Some b => Some (a + b)%Z | _, _ => None end) l (Some 0%Z).
Definition ie_update (e: ie) (m: bmap) : bmap :=
  fold_left (fun m xc =>
               let others := filter (fun yd => negb (name_eqb (fst yd) (fst xc))) (fst e) in
               match osum (map (term_max m) others) with
               | None => m
               | Some smax =>
                   let s := (- snd e - smax)%Z in
                   let c := snd xc in
                   let '(lo, hi) := bget (fst xc) m in
                   if (0 <? c)%Z then bset (fst xc) (omax lo (- ((- s) / c))%Z, hi) m
                   else bset (fst xc) (lo, omin hi (s / c)%Z) m
               end)
            (fst e) m.
Definition ie_round (ies: list ie) (m: bmap) : bmap := fold_left (fun m e => ie_update e m) ies m.
Fixpoint ie_iter (n: nat) (ies: list ie) (m: bmap) : bmap :=
  match n with 0 => m | S n' => ie_iter n' ies (ie_round ies m) end.
Definition obnd_eqb (a b: option Z) : bool := option_eqb Z.eqb a b.
Definition ie_names (ies: list ie) : list name := adedup name_eqb (flat_map (fun e => map fst (fst e)) ies).
Definition bmap_same (xs: list name) (a b: bmap) : bool :=
  forallb (fun x => andb (obnd_eqb (fst (bget x a)) (fst (bget x b))) (obnd_eqb (snd (bget x a)) (snd (bget x b)))) xs.
Definition bmap_conflict (xs: list name) (m: bmap) : bool :=
  existsb (fun x => match bget x m with (Some lo, Some hi) => (hi <? lo)%Z | _ => false end) xs.
(* Some m: the propagation reaches the conflict-free fixpoint m quickly *)
Definition ie_values (init: bmap) (ies: list ie) : option bmap :=
  if existsb (fun e => match fst e with [] => (snd e <? 0)%Z | _ => false end) ies then None else
  let xs := ie_names ies in
  let m := ie_iter (List.length xs + List.length ies + 2) ies init in
  if andb (bmap_same xs m (ie_round ies m)) (negb (bmap_conflict xs m)) then Some m else None.

(* ---------- scopes of a statement ---------- *)
(* pseudo literal carrying terms that only need a binding (heads, tuples, weights) *)
Definition carrier (tag: string) (ts: list term) : lit := Lit NoSign (ASym (TFun tag ts false)).
(* proj: `_` below function symbols is projected away (heads of disjunctions only) *)
Definition extra_needed_p (proj: bool) (l: lit) : list name :=
  flat_map (fun pt => tnames l proj (fst pt) (snd pt)) (level_terms l) ++ lit_range_needed l.
Definition extra_needed (l: lit) : list name := extra_needed_p false l.

(* a head literal never shares its anonymous variables / intervals with an equal body literal *)
Definition head_carrier (l: lit) : lit :=
  match l with Lit _ (ASym t) => carrier "#head" [t] | _ => l end.

Definition has_guard (a: atom) : bool :=
  match a with
  | ABodyAgg None _ _ None | AAgg None _ None => false
  | _ => true
  end.
Definition is_agg (a: atom) : bool := match a with ABodyAgg _ _ _ _ | AAgg _ _ _ => true | _ => false end.
(* the elements of a body aggregate as (tuple, binders) *)
Definition agg_elems (a: atom) : list (list term * list lit) :=
  match a with
  | ABodyAgg _ _ es _ => es
  | AAgg _ es _ => map (fun e => ([], fst e :: snd e)) es
  | _ => []
  end.
Definition elem_vars (e: list term * list lit) : list string := flat_map vars_term (fst e) ++ flat_map vars_lit (snd e).

Definition smem (x: string) (s: list string) : bool := existsb (String.eqb x) s.
Definition is_global (G: list string) (n: name) : bool := match n with NVar x => smem x G | _ => false end.
Definition local_only (G: list string) (ns: list name) : list name := filter (fun n => negb (is_global G n)) ns.
Definition gin_of (G: list string) (l: lit) : list name :=
  match l with Lit _ a => map NVar (filter (fun x => smem x G) (flat_map elem_vars (agg_elems a))) end.

(* level-0 body literals that survive (aggregates without guards are dropped) *)
Definition body_lits (b: list bodyelem) : list lit :=
  flat_map (fun x => match x with
                     | BLit (Lit s a) => if andb (is_agg a) (negb (has_guard a)) then [] else [Lit s a]
                     | BCond _ _ => [] end) b.

(* the statement after gringo's rewriting of a single guard-free choice element:
   (level-0 carriers that make variables global, level-0 carriers after the rewriting,
    condition literals moved to the body, head, body).
   The variables of the moved condition are bound like body variables afterwards, but they do not become
   global for the other scopes (levels are assigned before the rewriting). *)
Definition stmt_parts (s: stmt) : option (list lit * list lit * list lit * head * list bodyelem) :=
  match s with
  | SRule _ h b =>
      match h with
      | HLit l => Some ([head_carrier l], [head_carrier l], [], HLit l, b)
      | HAgg None [(l, c)] None => Some ([], [head_carrier l], c, HLit l, b)
      | HHeadAgg None _ [(ts, (l, c))] None => Some ([], [head_carrier l; carrier "#tuple" ts], c, HLit l, b)
      | HAgg lg _ rg | HHeadAgg lg _ _ rg =>
          let g := [carrier "#guard" (map (fun g => snd g) (guard_terms lg rg))] in Some (g, g, [], h, b)
      | HDisj _ => Some ([], [], [], h, b)
      | HTheory _ => None
      end
  | SMin _ w p ts b =>
      let g := [carrier "#weak" (w :: p :: ts)] in Some (g, g, [], HLit (Lit NoSign (ABool true)), b)
  | SShowTerm t b => let g := [carrier "#show" [t]] in Some (g, g, [], HLit (Lit NoSign (ABool true)), b)
  | _ => None
  end.

Definition nvars (ns: list name) : list string := flat_map (fun n => match n with NVar x => [x] | _ => [] end) ns.

Definition global_vars (extras: list lit) (b: list bodyelem) : list string :=
  nvars (flat_map extra_needed extras ++ flat_map lit_needed (body_lits b)).


(* ----- one scope -----
   binders: literals that bind (and must be bound); extras: literals that only need bindings (their
   intervals count); gin: for an aggregate literal, the global variables inside its elements *)
Definition scope_rules (gin: lit -> list name) (binders extras: list lit) : list (brule (A:=name)) :=
  flat_map (fun l => lit_brules (gin l) l) binders ++ flat_map lit_range_brules extras.
Definition scope_ies (binders extras: list lit) : list ie :=
  flat_map lit_ies binders ++ flat_map lit_range_ies extras.
Definition scope_needed (proj: bool) (binders extras: list lit) : list name :=
  flat_map lit_needed binders ++ flat_map (extra_needed_p proj) extras.
Definition no_gin (l: lit) : list name := [].

(* what the enclosing (global) scope hands down *)
Record env := { eG: list string;       (* global variables *)
                eP: list name;         (* variables of the global bound solver: not bound by bounds below *)
                eB: list name;         (* names bound from outside (the global variables) *)
                eI: list tag;          (* bounds known from outside, by name *)
                eV: bmap }.            (* their values (fragment check only) *)

(* local scope in one stage: (unsafe, bound names, bounds, values) *)
Definition local_scope (e: env) (B0: list name) (proj: bool) (binders extras: list lit)
  : list name * list name * list tag * option bmap :=
  let ies := scope_ies binders extras in
  let '(B, Ix) := solve (eP e) B0 (eI e) (scope_rules no_gin binders extras) ies in
  (adiff name_eqb (local_only (eG e) (scope_needed proj binders extras)) B, B, Ix, ie_values (eV e) ies).

Definition ok_of {A} (o: option A) : bool := match o with Some _ => true | None => false end.
Definition one_stage (e: env) (binders extras: list lit) : list name * bool :=
  let '(u, _, _, v) := local_scope e (eB e) false binders extras in (u, ok_of v).

(* the local scopes of a body element *)
Definition belem_scopes (e: env) (x: bodyelem) : list (list name * bool) :=
  match x with
  | BLit (Lit _ a) =>
      if andb (is_agg a) (has_guard a)
      then map (fun el => one_stage e (snd el) [carrier "#tuple" (fst el)]) (agg_elems a)
      else []
  | BCond l c =>
      (* first the condition alone, then the literal binds like a body literal (no bounds from it) *)
      let '(u1, B1, _, v) := local_scope e (eB e) false c [] in
      let B2 := closure name_eqb (lit_brules [] l) B1 in
      [(u1 ++ adiff name_eqb (local_only (eG e) (lit_needed l)) B2, ok_of v)]
  end.
Definition head_scopes (e: env) (h: head) : list (list name * bool) :=
  match h with
  | HLit _ | HTheory _ => []
  | HDisj es =>
      map (fun el =>
             let '(u1, B1, _, v1) := local_scope e (eB e) false (snd el) [] in
             (* heads with intervals are outside the fragment: the head only needs its variables *)
             (u1 ++ adiff name_eqb (local_only (eG e) (extra_needed_p true (head_carrier (fst el)))) B1, ok_of v1)) es
  | HAgg _ es _ => map (fun el => one_stage e (snd el) [head_carrier (fst el)]) es
  | HHeadAgg _ _ es _ =>
      map (fun el => one_stage e (snd (snd el)) [head_carrier (fst (snd el)); carrier "#tuple" (fst el)]) es
  end.

Definition is_nvar (n: name) : bool := match n with NVar _ => true | _ => false end.

(* the global scope: (unsafe names, environment of the other scopes, fragment flag) *)
Definition global_scope (G: list string) (lits extras: list lit) : list name * env * bool :=
  let ies := scope_ies lits extras in
  let '(Bg, Ig) := solve [] [] [] (scope_rules (gin_of G) lits extras) ies in
  let vg := ie_values [] ies in
  (* the other scopes see the bounds of the program variables of this one BY NAME (also those of the
     variables of a moved condition, which are different variables for the binding analysis), and
     they do not bind such a variable through bounds themselves *)
  (adiff name_eqb (scope_needed false lits extras) Bg,
   {| eG := G; eP := filter is_nvar (ie_names ies); eB := map NVar G;
      eI := filter (fun t => is_nvar (snd t)) Ig;
      eV := filter (fun xb => is_nvar (fst xb)) (match vg with Some m => m | None => [] end) |},
   ok_of vg).

(* unsafe names of all scopes, and whether every bound computation stayed inside the fragment *)
Definition analyse (s: stmt) : option (list name * bool) :=
  match stmt_parts s with
  | None => None
  | Some (gextras, extras, moved, h, b) =>
      let G := global_vars gextras b in
      let '(ug, e, okg) := global_scope G (moved ++ body_lits b) extras in
      let scopes := (ug, okg) :: flat_map (belem_scopes e) b ++ head_scopes e h in
      Some (flat_map fst scopes, forallb snd scopes)
  end.

(* ---------- the fragment, and the pruning of statically undefined parts ----------
   status: 0 = defined, 1 = statically undefined, 2 = outside the fragment.
   gringo drops the whole statement when a level-0 term is undefined, and only the aggregate
   element / conditional literal / head element when the undefined term is inside it. *)
Definition maxs (l: list nat) : nat := fold_left Nat.max l 0.
Definition guard_stat (g: option guard) : nat := match g with Some (_, t) => tstat t | None => 0 end.
(* literal allowed inside a condition *)
Definition plain_lit_stat (l: lit) : nat :=
  match l with
  | Lit _ (ASym t) => tstat t
  | Lit s (ACmp t gs) =>
      Nat.max (maxs (tstat t :: map (fun g => tstat (snd g)) gs))
              (match s with Neg => if Nat.leb (List.length gs) 1 then 0 else 2 | _ => 0 end)
  | Lit _ (ABool _) => 0
  | _ => 2
  end.
Definition lits_stat (ls: list lit) : nat := maxs (map plain_lit_stat ls).
Definition keep0 {A} (st: A -> nat) (l: list A) : list A := filter (fun x => Nat.eqb (st x) 0) l.
Definition any2 {A} (st: A -> nat) (l: list A) : nat := if existsb (fun x => Nat.eqb (st x) 2) l then 2 else 0.

Definition belem_stat (e: list term * list lit) : nat := Nat.max (maxs (map tstat (fst e))) (lits_stat (snd e)).
Definition condlit_stat (c: condlit) : nat := Nat.max (plain_lit_stat (fst c)) (lits_stat (snd c)).
Definition helem_stat (e: helem) : nat := Nat.max (maxs (map tstat (fst e))) (condlit_stat (snd e)).

(* (status of the level-0 part, the element after pruning) *)
Definition prune_belem (x: bodyelem) : nat * list bodyelem :=
  match x with
  | BLit (Lit s (ABodyAgg lg f es rg)) =>
      (Nat.max (Nat.max (guard_stat lg) (guard_stat rg)) (any2 belem_stat es),
       [BLit (Lit s (ABodyAgg lg f (keep0 belem_stat es) rg))])
  | BLit (Lit s (AAgg lg es rg)) =>
      (Nat.max (Nat.max (guard_stat lg) (guard_stat rg)) (any2 condlit_stat es),
       [BLit (Lit s (AAgg lg (keep0 condlit_stat es) rg))])
  | BLit l => (plain_lit_stat l, [x])
  | BCond l c =>
      (* undefined condition: the element goes; undefined head only: the condition is still checked *)
      let st := condlit_stat (l, c) in
      (if Nat.eqb st 2 then 2 else 0,
       if Nat.eqb (lits_stat c) 0 then [BCond (if Nat.eqb (plain_lit_stat l) 0 then l else Lit NoSign (ABool true)) c] else [])
  end.
Definition prune_body (b: list bodyelem) : nat * list bodyelem :=
  (maxs (map (fun x => fst (prune_belem x)) b), flat_map (fun x => snd (prune_belem x)) b).
Definition prune_head (h: head) : nat * head :=
  match h with
  | HLit l => (plain_lit_stat l, h)
  | HDisj es =>
      (* where gringo puts the range literals of a disjunctive head could not be determined: outside *)
      (Nat.max (any2 condlit_stat es)
               (if existsb (fun e => negb (Nat.eqb (List.length (lit_range_brules (fst e))) 0)) es then 2 else 0),
       HDisj (map (fun e => (if Nat.eqb (plain_lit_stat (fst e)) 0 then fst e else Lit NoSign (ABool true), snd e))
                  (keep0 (fun e => lits_stat (snd e)) es)))
  | HAgg lg es rg =>
      (Nat.max (Nat.max (guard_stat lg) (guard_stat rg)) (any2 condlit_stat es), HAgg lg (keep0 condlit_stat es) rg)
  | HHeadAgg lg f es rg =>
      (Nat.max (Nat.max (guard_stat lg) (guard_stat rg)) (any2 helem_stat es), HHeadAgg lg f (keep0 helem_stat es) rg)
  | HTheory _ => (2, h)
  end.
(* None: outside the fragment; Some None: the statement is dropped by gringo; Some (Some s'): s' is checked *)
Definition prune_stmt (s: stmt) : option (option stmt) :=
  let fin (st: nat) (s': stmt) := if Nat.eqb st 2 then None else if Nat.eqb st 1 then Some None else Some (Some s') in
  match s with
  | SRule ln h b =>
      let '(sh, h') := prune_head h in
      let '(sb, b') := prune_body b in
      fin (Nat.max sh sb) (SRule ln h' b')
  | SMin ln w p ts b =>
      let '(sb, b') := prune_body b in
      fin (Nat.max (maxs (map tstat (w :: p :: ts))) sb) (SMin ln w p ts b')
  | SShowTerm t b =>
      let '(sb, b') := prune_body b in
      fin (Nat.max (tstat t) sb) (SShowTerm t b')
  | SShowSig _ _ _ => Some (Some s)
  | SOther _ _ => None
  end.

(* ---------- the result ---------- *)
Definition name_str (n: name) : list string :=
  match n with NVar x => [x] | NAnon _ _ => ["_"] | NRange _ _ | NArith _ | NArithL _ _ => [] end.
Definition sdedup := adedup String.eqb.

(* unsafe variables of a statement without statically undefined parts (total; this is what the
   theorems of Link/SafeSpec.v talk about) *)
Definition unsafe_names (s: stmt) : list name :=
  match analyse s with Some (u, _) => u | None => [] end.
Definition unsafe_vars (s: stmt) : list string := sdedup (flat_map name_str (unsafe_names s)).
Definition safe_core (s: stmt) : bool := match unsafe_names s with [] => true | _ => false end.
(* the bound propagation of every scope reaches a conflict-free fixpoint quickly *)
Definition bounds_ok (s: stmt) : bool :=
  match s with
  | SShowSig _ _ _ => true
  | _ => match analyse s with Some (_, ok) => ok | None => false end
  end.

Definition safe_result (s: stmt) : result (list string) :=
  match prune_stmt s with
  | None => OutOfFragment
  | Some None => Ok []
  | Some (Some s') => if bounds_ok s' then Ok (unsafe_vars s') else OutOfFragment
  end.
Definition in_fragment (s: stmt) : bool := match safe_result s with Ok _ => true | _ => false end.
Definition safe_stmt (s: stmt) : bool := match safe_result s with Ok [] => true | _ => false end.
(* nothing is pruned and nothing is outside the fragment syntactically *)
Definition defined_stmt (s: stmt) : bool :=
  match prune_stmt s with Some (Some s') => stmt_eqb s s' | _ => false end.

(* ---------- comparison with the observation: (accepted by clingo, names reported as unsafe) ---------- *)
Fixpoint sinsert (x: string) (l: list string) : list string :=
  match l with
  | [] => [x]
  | y :: r => if String.leb x y then x :: l else y :: sinsert x r
  end.
Definition ssort (l: list string) : list string := fold_right sinsert [] l.
Definition chk_safe (model: result (list string)) (accepted: bool) (unsafe: list string) : bool :=
  match model with
  | Ok u => andb (Bool.eqb accepted (match u with [] => true | _ => false end))
                 (list_eqb String.eqb (ssort u) (ssort (sdedup unsafe)))
  | OutOfFragment => true
  | _ => false
  end.
Definition in_frag_result {A} (r: result A) : bool := match r with OutOfFragment => false | _ => true end.
(* 0 = syntactically outside, 1 = bounds outside, 2 = dropped (statically undefined), 3 = checked *)
Definition fragment_class (s: stmt) : nat :=
  match prune_stmt s with
  | None => 0
  | Some None => 2
  | Some (Some s') => if bounds_ok s' then 3 else 1
  end.
