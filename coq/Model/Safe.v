(* Executable model of *clingo's* safety check (gringo 5.8.2), determined experimentally
   (family `safe_stmt` in vlib/fam_safe.py is the arbiter).  No proofs here (see Link/SafeSpec.v).

   The rules that were found (every line was probed against clingo 5.8.2):

   * Scopes.  Global variables = variables with an occurrence at level 0: plain body literals,
     guards of body aggregates, a plain head literal, guards of a head aggregate / choice, the terms
     of a weak constraint, the term of a #show statement.  Everything inside an aggregate element,
     a conditional literal (body or disjunctive head) or a choice element is local unless the
     variable is global.  A choice / head aggregate with exactly ONE element and NO guards is
     rewritten first: its condition moves to the body and the element becomes a plain head.
     Body aggregates without any guard are dropped before the check (nothing in them is checked).
   * Binding (all scopes): a least fixpoint over rules "deps => provides":
       - positive symbolic atom p(ts): {} => bindvars(ts);
       - l = r  (sign positive or `not not`; or `not l != r` with a single guard; each `=` link of a
         positive chain): vars(r) => bindvars(l) and vars(l) => bindvars(r)  (whole side, no
         decomposition of tuples);
       - positive aggregate with guard `t = #agg{..}` / `#agg{..} = t`:
         (global variables occurring inside the elements) => bindvars(t);
       - a variable with a finite lower AND upper integer bound inferred from the linear
         (in)equalities of the scope (gringo's IESolver) is bound: {} => X.
     bindvars(t): t itself if it simplifies to m*X+n with m <> 0 (constant folding of every
     operator on numbers; +,-,* with a number; unary minus); arguments of function symbols / tuples;
     below a unary minus applied to a function term.  Nothing below |.|, ~, /, \, **, &, ?, ^,
     X+Y, X*Y, 0*X, intervals, @f(..).
     Negative / double negated atoms, other comparisons, aggregates bind nothing.
   * Bounds (finiteness only): every comparison `l op r` (op in <,<=,>,>=,=; negated single
     comparisons are inverted) whose sides are linear (sums of c*X, numbers, intervals) gives the
     inequality(ies) sum c_i*X_i + c >= 0, from which lb(X_i) (c_i>0) resp. ub(X_i) (c_i<0) follows
     once every other X_j has an upper (c_j>0) resp. lower (c_j<0) bound.  Every interval a..b
     anywhere in a literal of the scope (also in negative literals, heads, tuples) is a fresh
     variable R with R >= a and R <= b.  Local scopes inherit the bounds of the global scope.
   * Local scopes: globals count as bound (even unsafe ones).
       - body aggregate element  ts : cond          binders cond, ts needs binding
       - old style element       l : cond           binders l :: cond
       - choice / head aggregate element ts : l : cond   binders cond; l, ts need binding; intervals of l, ts count
       - body conditional literal l : cond          first cond alone (its variables must be bound by
                                                    it), then l binds like a body literal (no bounds from l)
       - disjunction element     l : cond           first cond alone, then l (only intervals of l help)
   * `_` : every occurrence is a variable of its own; inside a negative symbolic atom it is
     projected away when it is reached through function symbols only.

   Out of the fragment (`OutOfFragment`): pools, theory atoms, #external/#const/... statements,
   statically undefined arithmetic (an operator applied to a symbolic constant / function term /
   string / #inf / #sup, division by a constant zero, 0**negative: gringo drops the rule or the
   element, which makes everything "safe") or constant folding leaving 32 bits, negated comparison
   chains `not a < b < c` (gringo splits the statement in several ones), aggregates inside
   conditions (not produced by the parser), and statements whose integer bounds are contradictory
   or do not reach a fixpoint quickly (gringo then marks every variable of the scope bounded). *)
From Coq Require Import List String ZArith Bool Arith.
From NGO Require Import Syntax.Ast.
Import ListNotations.
Open Scope string_scope. Open Scope list_scope.

(* ---------- least fixpoint of binding rules ---------- *)
Section Closure.
  Context {A: Type} (eqb: A -> A -> bool).
  Definition amem (x: A) (s: list A) : bool := existsb (eqb x) s.
  Definition asub (a b: list A) : bool := forallb (fun x => amem x b) a.
  Definition adiff (a b: list A) : list A := filter (fun x => negb (amem x b)) a.
  Fixpoint adedup (l: list A) : list A :=
    match l with [] => [] | x :: r => if amem x r then adedup r else x :: adedup r end.
  Definition brule := (list A * list A)%type.          (* deps => provides *)
  Definition fires (B: list A) (r: brule) : bool := asub (fst r) B.
  (* fire every rule whose deps are bound, remove them, repeat *)
  Fixpoint closure_aux (n: nat) (rules: list brule) (B: list A) : list A :=
    match n with
    | 0 => B
    | S n' =>
        match filter (fires B) rules with
        | [] => B
        | fired => closure_aux n' (filter (fun r => negb (fires B r)) rules) (B ++ flat_map snd fired)
        end
    end.
  Definition closure (rules: list brule) (B: list A) : list A := closure_aux (List.length rules) rules B.
End Closure.

Fixpoint imap_from {A B} (i: nat) (f: nat -> A -> B) (l: list A) : list B :=
  match l with [] => [] | a :: r => f i a :: imap_from (S i) f r end.
Definition imap {A B} (f: nat -> A -> B) (l: list A) : list B := imap_from 0 f l.

(* ---------- static simplification of terms (gringo's Term::simplify, as far as safety sees it) ---------- *)
Inductive sval :=
| VOut                           (* statically undefined / pool / 32 bit overflow: out of the fragment *)
| VNum (z: Z)
| VLin (x: string) (m n: Z)      (* m*X+n, exactly one variable occurrence; an interval counts as the variable "#R" *)
| VSym                           (* symbolic constant, function term, tuple (may be negated with -) *)
| VStr                           (* string, #inf, #sup *)
| VOpaque.                       (* anything else: no binding through it *)

Definition fits (z: Z) : bool := andb (-2147483648 <=? z)%Z (z <=? 2147483647)%Z.
Definition vnum (z: Z) : sval := if fits z then VNum z else VOut.
Definition vlin (x: string) (m n: Z) : sval := if andb (fits m) (fits n) then VLin x m n else VOut.
Definition is_out (v: sval) : bool := match v with VOut => true | _ => false end.

Definition zpow (a b: Z) : sval :=
  if (b <? 0)%Z then (if (a =? 0)%Z then VOut else VNum 0)
  else if (a =? 0)%Z then VNum (if (b =? 0)%Z then 1 else 0)%Z
  else if (a =? 1)%Z then VNum 1
  else if (a =? -1)%Z then VNum (if Z.even b then 1 else -1)%Z
  else if (31 <? b)%Z then VOut else vnum (Z.pow a b).

Definition fold_bin (o: binop) (a b: Z) : sval :=
  match o with
  | BPlus => vnum (a + b) | BMinus => vnum (a - b) | BMul => vnum (a * b)
  | BDiv => if (b =? 0)%Z then VOut else vnum (Z.quot a b)
  | BMod => if (b =? 0)%Z then VOut else vnum (Z.rem a b)
  | BPow => zpow a b
  | BAnd => vnum (Z.land a b) | BOr => vnum (Z.lor a b) | BXor => vnum (Z.lxor a b)
  end.
Definition is_zero (v: sval) : bool := match v with VNum z => (z =? 0)%Z | _ => false end.
Definition is_divmod (o: binop) : bool := match o with BDiv | BMod => true | _ => false end.

Fixpoint simp (t: term) : sval :=
  match t with
  | TVar x => VLin x 1 0
  | TSym (SNum z) => vnum z
  | TSym (SFun _ _ _) => VSym
  | TSym _ => VStr
  | TUn o a =>
      match simp a with
      | VOut => VOut
      | VNum z => match o with UMinus => vnum (- z) | UNeg => vnum (Z.lnot z) | UAbs => vnum (Z.abs z) end
      | VLin x m n => match o with UMinus => vlin x (- m) (- n) | _ => VOpaque end
      | VSym => match o with UMinus => VSym | _ => VOut end
      | VStr => VOut
      | VOpaque => VOpaque
      end
  | TBin o l r =>
      match simp l, simp r with
      | VOut, _ | _, VOut => VOut
      | VSym, _ | VStr, _ | _, VSym | _, VStr => VOut
      | sl, sr =>
          if andb (is_divmod o) (is_zero sr) then VOut else
          (* a product with the constant 0 is kept as it is (the other side may be undefined at run time) *)
          if andb (match o with BMul => true | _ => false end) (orb (is_zero sl) (is_zero sr)) then VOpaque else
          match sl, sr with
          | VNum a, VNum b => fold_bin o a b
          | VNum a, VLin x m n =>
              match o with
              | BPlus => vlin x m (a + n) | BMinus => vlin x (- m) (a - n) | BMul => vlin x (a * m) (a * n)
              | _ => VOpaque end
          | VLin x m n, VNum b =>
              match o with
              | BPlus => vlin x m (n + b) | BMinus => vlin x m (n - b) | BMul => vlin x (m * b) (n * b)
              | _ => VOpaque end
          | _, _ => VOpaque
          end
      end
  | TInterval l r => if orb (is_out (simp l)) (is_out (simp r)) then VOut else VLin "#R" 1 0
  | TFun _ args ext =>
      if existsb (fun a => is_out (simp a)) args then VOut else if ext then VOpaque else VSym
  | TPool _ => VOut
  end.

(* every subterm is defined *)
Fixpoint term_ok (t: term) : bool :=
  andb (negb (is_out (simp t)))
  match t with
  | TVar _ | TSym _ => true
  | TUn _ a => term_ok a
  | TBin _ l r | TInterval l r => andb (term_ok l) (term_ok r)
  | TFun _ args _ => forallb term_ok args
  | TPool _ => false
  end.

(* ---------- names: program variables, anonymous variables, interval variables ----------
   An anonymous variable / interval is identified by the literal it occurs in and its position
   (reversed path) inside it: equal literals share them, which is harmless. *)
Inductive name :=
| NVar (x: string)
| NAnon (o: lit) (p: list nat)
| NRange (o: lit) (p: list nat).
Definition path_eqb (a b: list nat) : bool := list_eqb Nat.eqb a b.
Definition name_eqb (a b: name) : bool :=
  match a, b with
  | NVar x, NVar y => String.eqb x y
  | NAnon o p, NAnon o' p' => andb (lit_eqb o o') (path_eqb p p')
  | NRange o p, NRange o' p' => andb (lit_eqb o o') (path_eqb p p')
  | _, _ => false
  end.
Definition nmem := amem name_eqb.
Definition vname (o: lit) (p: list nat) (x: string) : name := if String.eqb x "_" then NAnon o p else NVar x.

(* variables of a term that need a binding; proj: `_` here is projected away *)
Fixpoint tnames (o: lit) (proj: bool) (p: list nat) (t: term) : list name :=
  match t with
  | TVar x => if andb proj (String.eqb x "_") then [] else [vname o p x]
  | TSym _ => []
  | TUn _ a => tnames o false (0 :: p) a
  | TBin _ l r => tnames o false (0 :: p) l ++ tnames o false (1 :: p) r
  | TInterval _ _ => [NRange o p]          (* gringo replaces a..b by a fresh variable R and adds R = a..b to the scope *)
  | TFun _ args ext =>
      (fix go (i: nat) (l: list term) : list name :=
         match l with [] => [] | a :: r => tnames o (andb proj (negb ext)) (i :: p) a ++ go (S i) r end) 0 args
  | TPool alts =>
      (fix go (i: nat) (l: list term) : list name :=
         match l with [] => [] | a :: r => tnames o false (i :: p) a ++ go (S i) r end) 0 alts
  end.

(* the range literals R = a..b of a term: (variables of a and b) => R, and those variables need a binding *)
Fixpoint range_brules (o: lit) (p: list nat) (t: term) : list (brule (A:=name)) :=
  match t with
  | TVar _ | TSym _ => []
  | TUn _ a => range_brules o (0 :: p) a
  | TBin _ l r => range_brules o (0 :: p) l ++ range_brules o (1 :: p) r
  | TInterval l r =>
      (tnames o false (0 :: p) l ++ tnames o false (1 :: p) r, [NRange o p])
      :: range_brules o (0 :: p) l ++ range_brules o (1 :: p) r
  | TFun _ args _ | TPool args =>
      (fix go (i: nat) (l: list term) : list (brule (A:=name)) :=
         match l with [] => [] | a :: r => range_brules o (i :: p) a ++ go (S i) r end) 0 args
  end.
Definition range_needed (o: lit) (p: list nat) (t: term) : list name := flat_map fst (range_brules o p t).

(* variables in binding position *)
Fixpoint bnames (o: lit) (p: list nat) (t: term) : list name :=
  match simp t with
  | VLin _ m _ => if (m =? 0)%Z then [] else tnames o false p t
  | _ =>
      match t with
      | TFun _ args false =>
          (fix go (i: nat) (l: list term) : list name :=
             match l with [] => [] | a :: r => bnames o (i :: p) a ++ go (S i) r end) 0 args
      | TUn UMinus a => match simp a with VSym => bnames o (0 :: p) a | _ => [] end
      | _ => []
      end
  end.

(* ---------- linear forms and inequalities  sum c_i * x_i + c >= 0 ---------- *)
Definition lform := (list (name * Z) * Z)%type.
Definition ie := lform.
Fixpoint ladd1 (x: name) (c: Z) (ts: list (name * Z)) : list (name * Z) :=
  match ts with
  | [] => [(x, c)]
  | (y, d) :: r => if name_eqb x y then (y, (d + c)%Z) :: r else (y, d) :: ladd1 x c r
  end.
Definition lnorm (f: lform) : lform :=
  (filter (fun yc => negb (snd yc =? 0)%Z) (fold_left (fun acc xc => ladd1 (fst xc) (snd xc) acc) (fst f) []), snd f).
Definition lscale (c: Z) (f: lform) : lform := (map (fun xc => (fst xc, (c * snd xc)%Z)) (fst f), (c * snd f)%Z).
Definition ladd (f g: lform) : lform := (fst f ++ fst g, (snd f + snd g)%Z).
Definition lsub (f g: lform) : lform := ladd f (lscale (-1) g).
Definition oadd (f g: option lform) : option lform :=
  match f, g with Some f, Some g => Some (ladd f g) | _, _ => None end.

Fixpoint linform (o: lit) (p: list nat) (t: term) : option lform :=
  match simp t with
  | VNum z => Some ([], z)
  | _ =>
      match t with
      | TVar x => Some ([(vname o p x, 1%Z)], 0%Z)
      | TUn UMinus a => option_map (lscale (-1)) (linform o (0 :: p) a)
      | TBin BPlus l r => oadd (linform o (0 :: p) l) (linform o (1 :: p) r)
      | TBin BMinus l r => oadd (linform o (0 :: p) l) (option_map (lscale (-1)) (linform o (1 :: p) r))
      | TBin BMul l r =>
          match simp l with
          | VNum c => option_map (lscale c) (linform o (1 :: p) r)
          | _ => match simp r with
                 | VNum c => option_map (lscale c) (linform o (0 :: p) l)
                 | _ => None end
          end
      | TInterval _ _ => Some ([(NRange o p, 1%Z)], 0%Z)
      | _ => None
      end
  end.

(* f >= 0 *)
Definition ie_ge0 (f: lform) : ie := lnorm f.
(* the interval variables of a term: R >= a, R <= b *)
Fixpoint range_ies (o: lit) (p: list nat) (t: term) : list ie :=
  match t with
  | TVar _ | TSym _ => []
  | TUn _ a => range_ies o (0 :: p) a
  | TBin _ l r => range_ies o (0 :: p) l ++ range_ies o (1 :: p) r
  | TInterval l r =>
      let R : lform := ([(NRange o p, 1%Z)], 0%Z) in
      (match linform o (0 :: p) l with Some a => [ie_ge0 (lsub R a)] | None => [] end)
      ++ (match linform o (1 :: p) r with Some b => [ie_ge0 (lsub b R)] | None => [] end)
      ++ range_ies o (0 :: p) l ++ range_ies o (1 :: p) r
  | TFun _ args _ | TPool args =>
      (fix go (i: nat) (l: list term) : list ie :=
         match l with [] => [] | a :: r => range_ies o (i :: p) a ++ go (S i) r end) 0 args
  end.

Definition rel_ies (o: lit) (pl: list nat) (l: term) (op: cmp) (pr: list nat) (r: term) : list ie :=
  match linform o pl l, linform o pr r with
  | Some a, Some b =>
      let one : lform := ([], 1%Z) in
      match op with
      | CLt => [ie_ge0 (lsub (lsub b a) one)]
      | CLe => [ie_ge0 (lsub b a)]
      | CGt => [ie_ge0 (lsub (lsub a b) one)]
      | CGe => [ie_ge0 (lsub a b)]
      | CEq => [ie_ge0 (lsub b a); ie_ge0 (lsub a b)]
      | CNe => []
      end
  | _, _ => []
  end.

(* ---------- what a literal contributes to its scope ---------- *)
Definition neg_cmp (op: cmp) : cmp :=
  match op with CEq => CNe | CNe => CEq | CLt => CGe | CLe => CGt | CGt => CLe | CGe => CLt end.
Fixpoint c2cl_idx (k: nat) (lhs: term) (gs: list guard) : list (nat * term * cmp * nat * term) :=
  match gs with
  | [] => []
  | (op, rhs) :: r => (k, lhs, op, S k, rhs) :: c2cl_idx (S k) rhs r
  end.
(* the elementary relations a comparison literal stands for (conjunctively) *)
Definition eff_rels (s: sign) (t: term) (gs: list guard) : list (nat * term * cmp * nat * term) :=
  match s with
  | Neg => match gs with [(op, r)] => [(0, t, neg_cmp op, 1, r)] | _ => [] end
  | _ => c2cl_idx 0 t gs
  end.

Definition guard_terms (lg rg: option guard) : list (nat * cmp * term) :=
  (match lg with Some (c, t) => [(0, c, t)] | None => [] end)
  ++ (match rg with Some (c, t) => [(1, c, t)] | None => [] end).

(* the terms of a literal that live in the scope of the literal itself, with their positions *)
Definition level_terms (l: lit) : list (list nat * term) :=
  match l with
  | Lit _ (ASym t) => [([], t)]
  | Lit _ (ACmp t gs) => ([0], t) :: imap (fun i g => ([S i], snd g)) gs
  | Lit _ (ABodyAgg lg _ _ rg) | Lit _ (AAgg lg _ rg) => map (fun g => ([fst (fst g)], snd g)) (guard_terms lg rg)
  | _ => []
  end.
Definition is_neg_sym (l: lit) : bool :=
  match l with Lit NoSign _ => false | Lit _ (ASym _) => true | _ => false end.

Definition lit_needed (l: lit) : list name :=
  flat_map (fun pt => tnames l (is_neg_sym l) (fst pt) (snd pt)) (level_terms l).
(* gin: the global variables occurring inside the elements of the aggregate *)
Definition lit_brules (gin: list name) (l: lit) : list (brule (A:=name)) :=
  match l with
  | Lit NoSign (ASym t) => [([], bnames l [] t)]
  | Lit s (ACmp t gs) =>
      flat_map (fun q => match q with (kl, a, op, kr, b) =>
                  if cmp_eqb op CEq
                  then [(tnames l false [kr] b, bnames l [kl] a); (tnames l false [kl] a, bnames l [kr] b)]
                  else [] end)
               (eff_rels s t gs)
  | Lit NoSign (ABodyAgg lg _ _ rg) | Lit NoSign (AAgg lg _ rg) =>
      flat_map (fun g => match g with (i, c, t) => if cmp_eqb c CEq then [(gin, bnames l [i] t)] else [] end)
               (guard_terms lg rg)
  | _ => []
  end.
Definition lit_range_ies (l: lit) : list ie :=
  flat_map (fun pt => range_ies l (fst pt) (snd pt)) (level_terms l).
Definition lit_ies (l: lit) : list ie :=
  (match l with
   | Lit s (ACmp t gs) =>
       flat_map (fun q => match q with (kl, a, op, kr, b) => rel_ies l [kl] a op [kr] b end) (eff_rels s t gs)
   | _ => []
   end) ++ lit_range_ies l.

(* ---------- finiteness of bounds: Horn rules over (is_lower, x) ---------- *)
Definition tag := (bool * name)%type.
Definition tag_eqb (a b: tag) : bool := andb (Bool.eqb (fst a) (fst b)) (name_eqb (snd a) (snd b)).
Definition ie_rules (e: ie) : list (brule (A:=tag)) :=
  map (fun xc =>
         (map (fun yd => ((snd yd <? 0)%Z, fst yd)) (filter (fun yd => negb (name_eqb (fst yd) (fst xc))) (fst e)),
          [((0 <? snd xc)%Z, fst xc)]))
      (fst e).
Definition ie_closure (ies: list ie) (I0: list tag) : list tag := closure tag_eqb (flat_map ie_rules ies) I0.
Definition bounded_names (I: list tag) : list name :=
  map snd (filter (fun t => andb (fst t) (amem tag_eqb (false, snd t) I)) I).

(* one scope: B0/I0 what is known from outside; result: bound names and bound facts *)
Definition solve (B0: list name) (I0: list tag) (brs: list (brule (A:=name))) (ies: list ie) : list name * list tag :=
  let I := ie_closure ies I0 in
  (closure name_eqb brs (B0 ++ bounded_names I), I).

(* ---------- value propagation, only used to recognise contradictory bounds ---------- *)
Definition bnd := (option Z * option Z)%type.
Definition bmap := list (name * bnd).
Fixpoint bget (x: name) (m: bmap) : bnd :=
  match m with [] => (None, None) | (y, b) :: r => if name_eqb x y then b else bget x r end.
Fixpoint bset (x: name) (b: bnd) (m: bmap) : bmap :=
  match m with [] => [(x, b)] | (y, c) :: r => if name_eqb x y then (y, b) :: r else (y, c) :: bset x b r end.
Definition omax (a: option Z) (b: Z) : option Z := match a with None => Some b | Some a => Some (Z.max a b) end.
Definition omin (a: option Z) (b: Z) : option Z := match a with None => Some b | Some a => Some (Z.min a b) end.
Definition term_max (m: bmap) (yd: name * Z) : option Z :=
  let '(lo, hi) := bget (fst yd) m in
  if (0 <? snd yd)%Z then option_map (Z.mul (snd yd)) hi else option_map (Z.mul (snd yd)) lo.
Definition osum (l: list (option Z)) : option Z :=
  fold_left (fun acc x => match acc, x with Some a, Some b => Some (a + b)%Z | _, _ => None end) l (Some 0%Z).
Definition ie_update (e: ie) (m: bmap) : bmap :=
  fold_left (fun m xc =>
               let others := filter (fun yd => negb (name_eqb (fst yd) (fst xc))) (fst e) in
               match osum (map (term_max m) others) with
               | None => m
               | Some smax =>
                   let s := (- snd e - smax)%Z in
                   let c := snd xc in
                   let '(lo, hi) := bget (fst xc) m in
                   if (0 <? c)%Z then bset (fst xc) (omax lo (- ((- s) / c))%Z, hi) m
                   else bset (fst xc) (lo, omin hi (s / c)%Z) m
               end)
            (fst e) m.
Definition ie_round (ies: list ie) (m: bmap) : bmap := fold_left (fun m e => ie_update e m) ies m.
Fixpoint ie_iter (n: nat) (ies: list ie) (m: bmap) : bmap :=
  match n with 0 => m | S n' => ie_iter n' ies (ie_round ies m) end.
Definition obnd_eqb (a b: option Z) : bool := option_eqb Z.eqb a b.
Definition ie_names (ies: list ie) : list name := adedup name_eqb (flat_map (fun e => map fst (fst e)) ies).
Definition bmap_same (xs: list name) (a b: bmap) : bool :=
  forallb (fun x => andb (obnd_eqb (fst (bget x a)) (fst (bget x b))) (obnd_eqb (snd (bget x a)) (snd (bget x b)))) xs.
Definition bmap_conflict (xs: list name) (m: bmap) : bool :=
  existsb (fun x => match bget x m with (Some lo, Some hi) => (hi <? lo)%Z | _ => false end) xs.
(* Some m: the propagation reaches the conflict-free fixpoint m quickly *)
Definition ie_values (init: bmap) (ies: list ie) : option bmap :=
  if existsb (fun e => match fst e with [] => (snd e <? 0)%Z | _ => false end) ies then None else
  let xs := ie_names ies in
  let m := ie_iter (List.length xs + List.length ies + 2) ies init in
  if andb (bmap_same xs m (ie_round ies m)) (negb (bmap_conflict xs m)) then Some m else None.

(* ---------- scopes of a statement ---------- *)
(* pseudo literal carrying terms that only need a binding (heads, tuples, weights) *)
Definition carrier (tag: string) (ts: list term) : lit := Lit NoSign (ASym (TFun tag ts false)).
Definition extra_needed (l: lit) : list name :=
  match l with Lit _ a => flat_map (fun pt => tnames l false (fst pt) (snd pt)) (level_terms l) end.

Definition has_guard (a: atom) : bool :=
  match a with
  | ABodyAgg None _ _ None | AAgg None _ None => false
  | _ => true
  end.
Definition is_agg (a: atom) : bool := match a with ABodyAgg _ _ _ _ | AAgg _ _ _ => true | _ => false end.
(* the elements of a body aggregate as (tuple, binders) *)
Definition agg_elems (a: atom) : list (list term * list lit) :=
  match a with
  | ABodyAgg _ _ es _ => es
  | AAgg _ es _ => map (fun e => ([], fst e :: snd e)) es
  | _ => []
  end.
Definition elem_vars (e: list term * list lit) : list string := flat_map vars_term (fst e) ++ flat_map vars_lit (snd e).

Definition smem (x: string) (s: list string) : bool := existsb (String.eqb x) s.
Definition is_global (G: list string) (n: name) : bool := match n with NVar x => smem x G | _ => false end.
Definition local_only (G: list string) (ns: list name) : list name := filter (fun n => negb (is_global G n)) ns.
Definition gin_of (G: list string) (l: lit) : list name :=
  match l with Lit _ a => map NVar (filter (fun x => smem x G) (flat_map elem_vars (agg_elems a))) end.

(* level-0 body literals that survive (aggregates without guards are dropped) *)
Definition body_lits (b: list bodyelem) : list lit :=
  flat_map (fun x => match x with
                     | BLit (Lit s a) => if andb (is_agg a) (negb (has_guard a)) then [] else [Lit s a]
                     | BCond _ _ => [] end) b.

(* the statement after gringo's rewriting of a single guard-free choice element:
   (head carriers at level 0, body) *)
Definition stmt_parts (s: stmt) : option (list lit * head * list bodyelem) :=
  match s with
  | SRule _ h b =>
      match h with
      | HLit l => Some ([l], HLit l, b)
      | HAgg None [(l, c)] None => Some ([l], HLit l, map BLit c ++ b)
      | HHeadAgg None _ [(ts, (l, c))] None => Some ([l; carrier "#tuple" ts], HLit l, map BLit c ++ b)
      | HAgg lg _ rg | HHeadAgg lg _ _ rg =>
          Some ([carrier "#guard" (map (fun g => snd g) (guard_terms lg rg))], h, b)
      | HDisj _ => Some ([], h, b)
      | HTheory _ => None
      end
  | SMin _ w p ts b => Some ([carrier "#weak" (w :: p :: ts)], HLit (Lit NoSign (ABool true)), b)
  | SShowTerm t b => Some ([carrier "#show" [t]], HLit (Lit NoSign (ABool true)), b)
  | _ => None
  end.

Definition nvars (ns: list name) : list string := flat_map (fun n => match n with NVar x => [x] | _ => [] end) ns.

Definition global_vars (extras: list lit) (b: list bodyelem) : list string :=
  nvars (flat_map extra_needed extras ++ flat_map lit_needed (body_lits b)).


(* local scope in one stage *)
Definition local_scope (G: list string) (B0: list name) (I0: list tag) (V0: bmap)
           (binders: list lit) (extras: list lit) : list name * list name * list tag * option bmap :=
  let ies := flat_map lit_ies binders ++ flat_map lit_range_ies extras in
  let '(B, Ix) := solve B0 I0 (flat_map (lit_brules []) binders) ies in
  let needed := flat_map lit_needed binders ++ flat_map extra_needed extras in
  (adiff name_eqb (local_only G needed) B, B, Ix, ie_values V0 ies).

Definition ok_of {A} (o: option A) : bool := match o with Some _ => true | None => false end.

(* unsafe names of all scopes, and whether every bound computation stayed inside the fragment *)
Definition analyse (s: stmt) : option (list name * bool) :=
  match stmt_parts s with
  | None => None
  | Some (extras, h, b) =>
      let G := global_vars extras b in
      let B0 := map NVar G in
      let lits := body_lits b in
      let ies := flat_map lit_ies lits ++ flat_map lit_range_ies extras in
      let '(Bg, Ig) := solve [] [] (flat_map (fun l => lit_brules (gin_of G l) l) lits) ies in
      let needed := flat_map lit_needed lits ++ flat_map extra_needed extras in
      let ug := adiff name_eqb needed Bg in
      let vg := ie_values [] ies in
      let V0 := match vg with Some m => m | None => [] end in
      (* body: aggregate elements and conditional literals *)
      let body_scopes :=
        flat_map (fun x =>
          match x with
          | BLit (Lit _ a) =>
              if andb (is_agg a) (has_guard a)
              then map (fun e =>
                          let '(u, _, _, v) := local_scope G B0 Ig V0 (snd e) [carrier "#tuple" (fst e)] in
                          (u, ok_of v))
                       (agg_elems a)
              else []
          | BCond l c =>
              let '(u1, B1, _, v) := local_scope G B0 Ig V0 c [] in
              let B2 := closure name_eqb (lit_brules [] l) B1 in
              [(u1 ++ adiff name_eqb (local_only G (lit_needed l)) B2, ok_of v)]
          end) b in
      let head_scopes :=
        match h with
        | HLit _ | HTheory _ => []
        | HDisj es =>
            map (fun e =>
                   let '(u1, B1, I1, v1) := local_scope G B0 Ig V0 (snd e) [] in
                   let V1 := match v1 with Some m => m | None => [] end in
                   let '(u2, _, _, v2) := local_scope G B1 I1 V1 [] [fst e] in
                   (u1 ++ u2, andb (ok_of v1) (ok_of v2))) es
        | HAgg _ es _ =>
            map (fun e => let '(u, _, _, v) := local_scope G B0 Ig V0 (snd e) [fst e] in (u, ok_of v)) es
        | HHeadAgg _ _ es _ =>
            map (fun e =>
                   let '(u, _, _, v) := local_scope G B0 Ig V0 (snd (snd e)) [fst (snd e); carrier "#tuple" (fst e)] in
                   (u, ok_of v)) es
        end in
      let scopes := (ug, ok_of vg) :: body_scopes ++ head_scopes in
      Some (flat_map fst scopes, forallb snd scopes)
  end.

(* ---------- the fragment ---------- *)
Definition guard_ok (g: option guard) : bool := match g with Some (_, t) => term_ok t | None => true end.
(* literal allowed inside a condition *)
Definition plain_lit_ok (l: lit) : bool :=
  match l with
  | Lit _ (ASym t) => term_ok t
  | Lit s (ACmp t gs) =>
      andb (andb (term_ok t) (forallb (fun g => term_ok (snd g)) gs))
           (match s with Neg => Nat.leb (List.length gs) 1 | _ => true end)
  | Lit _ (ABool _) => true
  | _ => false
  end.
Definition body_lit_ok (l: lit) : bool :=
  match l with
  | Lit _ (ABodyAgg lg _ es rg) =>
      andb (andb (guard_ok lg) (guard_ok rg))
           (forallb (fun e => andb (forallb term_ok (fst e)) (forallb plain_lit_ok (snd e))) es)
  | Lit _ (AAgg lg es rg) =>
      andb (andb (guard_ok lg) (guard_ok rg))
           (forallb (fun e => andb (plain_lit_ok (fst e)) (forallb plain_lit_ok (snd e))) es)
  | _ => plain_lit_ok l
  end.
Definition bodyelem_ok (x: bodyelem) : bool :=
  match x with
  | BLit l => body_lit_ok l
  | BCond l c => andb (plain_lit_ok l) (forallb plain_lit_ok c)
  end.
Definition condlit_ok (c: condlit) : bool := andb (plain_lit_ok (fst c)) (forallb plain_lit_ok (snd c)).
Definition head_ok (h: head) : bool :=
  match h with
  | HLit l => plain_lit_ok l
  | HDisj es => forallb condlit_ok es
  | HAgg lg es rg => andb (andb (guard_ok lg) (guard_ok rg)) (forallb condlit_ok es)
  | HHeadAgg lg _ es rg =>
      andb (andb (guard_ok lg) (guard_ok rg))
           (forallb (fun e => andb (forallb term_ok (fst e)) (condlit_ok (snd e))) es)
  | HTheory _ => false
  end.
Definition syntax_ok (s: stmt) : bool :=
  match s with
  | SRule _ h b => andb (head_ok h) (forallb bodyelem_ok b)
  | SMin _ w p ts b => andb (forallb term_ok (w :: p :: ts)) (forallb bodyelem_ok b)
  | SShowTerm t b => andb (term_ok t) (forallb bodyelem_ok b)
  | SShowSig _ _ _ => true
  | SOther _ _ => false
  end.

(* ---------- the result ---------- *)
Definition name_str (n: name) : list string :=
  match n with NVar x => [x] | NAnon _ _ => ["_"] | NRange _ _ => [] end.
Definition sdedup := adedup String.eqb.

(* unsafe variables whatever the fragment says (total; this is what the theorems talk about) *)
Definition unsafe_names (s: stmt) : list name :=
  match analyse s with Some (u, _) => u | None => [] end.
Definition unsafe_vars (s: stmt) : list string := sdedup (flat_map name_str (unsafe_names s)).
Definition in_fragment (s: stmt) : bool :=
  andb (syntax_ok s)
       (match s with
        | SShowSig _ _ _ => true
        | _ => match analyse s with Some (_, ok) => ok | None => false end
        end).
Definition safe_core (s: stmt) : bool := match unsafe_names s with [] => true | _ => false end.

Definition safe_result (s: stmt) : result (list string) :=
  if in_fragment s then Ok (unsafe_vars s) else OutOfFragment.
Definition safe_stmt (s: stmt) : bool := andb (in_fragment s) (safe_core s).

(* ---------- comparison with the observation: (accepted by clingo, names reported as unsafe) ---------- *)
Fixpoint sinsert (x: string) (l: list string) : list string :=
  match l with
  | [] => [x]
  | y :: r => if String.leb x y then x :: l else y :: sinsert x r
  end.
Definition ssort (l: list string) : list string := fold_right sinsert [] l.
Definition chk_safe (model: result (list string)) (accepted: bool) (unsafe: list string) : bool :=
  match model with
  | Ok u => andb (Bool.eqb accepted (match u with [] => true | _ => false end))
                 (list_eqb String.eqb (ssort u) (ssort (sdedup unsafe)))
  | OutOfFragment => true
  | _ => false
  end.
Definition in_frag_result {A} (r: result A) : bool := match r with OutOfFragment => false | _ => true end.
