(* comparison helpers used by the generated correspondence shards *)
From Coq Require Import List String ZArith Bool.
From NGO Require Import Syntax.Ast Model.Traverse.
Import ListNotations.
Open Scope string_scope. Open Scope list_scope.

Definition chk_spreds (a b: list spred) : bool := list_eqb spred_eqb a b.
Definition chk_preds (a b: list pred) : bool := list_eqb pred_eqb a b.

(* observed list = sorted prefix ++ tail in Python-set order: compare the tail as a sorted multiset *)
Definition chk_auto_input (prg: list stmt) (obs: list pred) : bool :=
  let r := auto_detect_input_parts prg in
  let n := List.length (fst r) in
  andb (list_eqb pred_eqb (firstn n obs) (fst r))
       (list_eqb pred_eqb (psort (skipn n obs)) (psort (snd r))).

Definition chk_strings (a b: list string) : bool := list_eqb String.eqb a b.
Definition chk_ostrings (a b: option (list string)) : bool := option_eqb (list_eqb String.eqb) a b.

Definition result_eqb {A} (e: A -> A -> bool) (x y: result A) : bool :=
  match x, y with
  | Ok a, Ok b => e a b
  | Raise k, Raise k' => String.eqb k k'
  | _, _ => false
  end.
Definition in_fragment {A} (x: result A) : bool := match x with OutOfFragment => false | _ => true end.
(* a case outside the model's fragment is not compared (counted separately by the harness) *)
Definition chk_result {A} (e: A -> A -> bool) (model obs: result A) : bool :=
  match model with OutOfFragment => true | _ => result_eqb e model obs end.
Definition chk_prog (model obs: result (list stmt)) : bool := chk_result (list_eqb stmt_eqb) model obs.
