(* Executable model of ngo/literal_duplication.py
     (RuleRebuilder, LiteralCollector, anonymize_variables, unanonymize_variables,
      LiteralDuplicationTranslator)
   and of replace_assignments / replace_var_name (ngo/utils/ast.py:771-819).  No proofs here.

   Conventions
   * Body elements and the literals of conditions live in one type: a literal of a condition is wrapped
     as `BLit l`, so that a key of `occurences` (a tuple of AST nodes) is always a `list bodyelem`
     (in Python a key built from a body and a key built from a condition can be the same tuple).
   * Python `set`s: `changed_rules` (ints), the set of (ruleid, sub_ast, sub_sub_ast) triples, the sets of
     Variable nodes of the connectivity filter.  Only sizes, membership and `sorted()` are observed, so the
     hash order is not observable anywhere in this module; duplicate-free lists are used.
   * Python dicts (`occurences`, `oldvars2newvars`, `additional_rules`) are association lists in insertion
     order.  `additional_rules` is only read through `sorted(keys)`.
   * networkx: `nx.connected_components` of the graph whose edges are the 2-combinations of the global
     variables of each literal is computed by merging the variable sets that have at least two members
     (a literal with a single global variable adds no edge, hence no node at all); only the number of components
     and the size of the single component are observed.
   * The object state is explicit: LiteralCollector = (prg, additional_rules, occurences), the
     translator = its UniqueNames object (Globals.unames).  The DomainPredicates object built by the
     constructor is never used by `execute`; only its effect on UniqueNames and its exceptions matter.
   * `while size > 1` is recursion on fuel.
   * Theory atoms are opaque in the mirror (their Variable nodes are invisible): a Rule / Minimize
     statement with a theory atom makes the whole call OutOfFragment; so does a program on which
     Dependency.dp_init is OutOfFragment (pools inside rules).
   * AUX_VAR = "__AUX_" is defined in literal_duplication.py itself (not in utils/globals.py, so it is not
     in Gen/Names.v); the family duplication_constants compares it with the Python constant. *)
From Coq Require Import List String Ascii ZArith Bool Arith.
From NGO Require Import Syntax.Ast Syntax.Order Gen.Names Model.Traverse Model.Corr Model.Globals Model.Binding.
From NGO Require Model.Normalize Model.Dependency.
Import ListNotations.
Open Scope string_scope. Open Scope list_scope.

Definition AUX_VAR : string := "__AUX_".
Definition LOC_line : nat := 1.     (* LOC = Location(Position("<string>", 1, 1), ...) *)

(* ---------- small helpers ---------- *)
Definition nmem (i: nat) (l: list nat) : bool := existsb (Nat.eqb i) l.
Definition nadd (i: nat) (l: list nat) : list nat := if nmem i l then l else l ++ [i].

Fixpoint rmapM {A B} (f: A -> result B) (l: list A) : result (list B) :=
  match l with
  | [] => Ok []
  | x :: r => rbind (f x) (fun y => rbind (rmapM f r) (fun ys => Ok (y :: ys)))
  end.

Fixpoint mapi_from {A} (i: nat) (f: nat -> A -> A) (l: list A) : list A :=
  match l with [] => [] | x :: r => f i x :: mapi_from (S i) f r end.

Definition smap := list (string * string).
Fixpoint slookup (k: string) (m: smap) : option string :=
  match m with
  | [] => None
  | (k', v) :: r => if String.eqb k k' then Some v else slookup k r
  end.

(* itertools.combinations(l, r): the r-element subsequences of l in lexicographic order of positions *)
Fixpoint combinations {A} (l: list A) (r: nat) {struct l} : list (list A) :=
  match r, l with
  | 0, _ => [[]]
  | S _, [] => []
  | S r', x :: l' => map (cons x) (combinations l' r') ++ combinations l' r
  end.

(* statements whose Variable nodes are not all visible in the mirror *)
Definition stmt_opaque (s: stmt) : bool :=
  match s with
  | SRule _ _ _ => opaque_vars s
  | SMin _ _ _ _ _ => opaque_vars s
  | _ => false
  end.

(* ================================================================================================ *)
(* replace_assignments (utils/ast.py)                                                               *)
(* ================================================================================================ *)
(* the test in the loop: a literal  V = t / not V != t  with a Variable on the left and no interval in the
   term of the *first* guard (further guards are ignored; a Comparison without guards would be an
   IndexError, the parser never builds one) *)
Definition assignment_of (b: bodyelem) : result (option (string * term)) :=
  match b with
  | BLit (Lit s (ACmp (TVar x) gs)) =>
      match gs with
      | [] => Raise "IndexError"
      | (op, t) :: _ =>
          if has_interval t then Ok None
          else if orb (andb (sign_eqb s NoSign) (cmp_eqb op CEq)) (andb (sign_eqb s Neg) (cmp_eqb op CNe))
          then Ok (Some (x, t)) else Ok None
      end
  | _ => Ok None
  end.

(* transform_ast(elem, "Variable", partial(replace_var_name, orig, replace)) *)
Definition replace_var_bodyelem (x: string) (t: term) : bodyelem -> bodyelem :=
  Normalize.vmap_bodyelem (Normalize.subst1 x t).

(* for index, lit in enumerate(new_body): new_body is updated in place while it is iterated, so `lit` has
   already seen the earlier substitutions.  Returns the body, the substitutions in the order in which
   they were applied (the heads get the same ones in the same order) and `removal`. *)
Fixpoint ra_loop (remaining index: nat) (body: list bodyelem) (substs: list (string * term)) (removal: list nat)
  : result (list bodyelem * list (string * term) * list nat) :=
  match remaining with
  | 0 => Ok (body, substs, removal)
  | S rem =>
      match nth_error body index with
      | None => Ok (body, substs, removal)
      | Some lit =>
          rbind (assignment_of lit) (fun a =>
          match a with
          | Some (x, t) =>
              let body' := mapi_from 0 (fun other elem => if Nat.eqb other index then elem
                                                          else replace_var_bodyelem x t elem) body in
              ra_loop rem (S index) body' (substs ++ [(x, t)]) (removal ++ [index])
          | None => ra_loop rem (S index) body substs removal
          end)
      end
  end.

(* for index in reversed(removal): new_body.pop(index) *)
Definition remove_indices {A} (removal: list nat) (l: list A) : list A :=
  map snd (filter (fun p => negb (nmem (fst p) removal)) (combine (seq 0 (List.length l)) l)).

Definition apply_substs_term (substs: list (string * term)) (t: term) : term :=
  fold_left (fun t xt => Normalize.vmap_term (Normalize.subst1 (fst xt) (snd xt)) t) substs t.
Definition apply_substs_head (substs: list (string * term)) (h: head) : head :=
  fold_left (fun h xt => Normalize.vmap_head (Normalize.subst1 (fst xt) (snd xt)) h) substs h.

Definition replace_assignments (stm: stmt) : result stmt :=
  match stm with
  | SRule line h b =>
      if opaque_vars stm then OutOfFragment else
      rbind (ra_loop (List.length b) 0 b [] []) (fun r =>
      let '(body, substs, removal) := r in
      Ok (SRule line (apply_substs_head substs h) (remove_indices removal body)))
  | SMin line w p ts b =>
      if opaque_vars stm then OutOfFragment else
      rbind (ra_loop (List.length b) 0 b [] []) (fun r =>
      let '(body, substs, removal) := r in
      Ok (SMin line (apply_substs_term substs w) (apply_substs_term substs p)
                    (map (apply_substs_term substs) ts) (remove_indices removal body)))
  | _ => Ok stm
  end.

(* ================================================================================================ *)
(* anonymize_variables / unanonymize_variables                                                      *)
(* ================================================================================================ *)
(* the closure `replace` is called once per Variable node in visiting order (Ast.vars_bodyelem); the name
   given to a variable is fixed at its first occurrence, so the mapping can be computed first and
   applied afterwards.  "_" is never renamed and never consumes a number. *)
Fixpoint anon_mapping (vars: list string) (counter: nat) (old2new: smap) : smap :=
  match vars with
  | [] => old2new
  | v :: r =>
      match slookup v old2new with
      | Some _ => anon_mapping r counter old2new
      | None =>
          if String.eqb v "_" then anon_mapping r counter old2new
          else anon_mapping r (S counter) (old2new ++ [(v, (AUX_VAR ++ string_of_nat counter)%string)])
      end
  end.

Definition rename_with (m: smap) (x: string) : term :=
  match slookup x m with Some n => TVar n | None => TVar x end.

(* returns (sorted(ret), old2new) *)
Definition anonymize_variables (literals: list bodyelem) : list bodyelem * smap :=
  let old2new := anon_mapping (flat_map vars_bodyelem literals) 0 [] in
  (sort_bodyelems (map (Normalize.vmap_bodyelem (rename_with old2new)) literals), old2new).

(* {v: k for k, v in oldvars2newvars.items()} : the mapping is injective *)
Definition invert (m: smap) : smap := map (fun kv => (snd kv, fst kv)) m.

(* [var.update(name=mapping[var.name]) for var in variables if var.name in mapping] *)
Definition unanonymize_variables (variables: list string) (mapping: smap) : list string :=
  flat_map (fun v => match slookup v mapping with Some o => [o] | None => [] end) variables.

(* ================================================================================================ *)
(* LiteralCollector                                                                                 *)
(* ================================================================================================ *)
Record rebuilder := mk_rb {
  rb_ruleid : nat;
  rb_sub : option bodyelem;          (* None | a ConditionalLiteral | a Literal with a BodyAggregate *)
  rb_subsub : option belem;          (* the BodyAggregateElement *)
  rb_orig : list bodyelem;           (* original_literals *)
  rb_new : list bodyelem;            (* new_literals (= the key) *)
  rb_old2new : smap;
  rb_new2old : smap
}.
(* self.occurences: defaultdict(list), keys in insertion order *)
Definition occmap := list (list bodyelem * list rebuilder).

Definition key_eqb : list bodyelem -> list bodyelem -> bool := list_eqb bodyelem_eqb.

Fixpoint occ_add (k: list bodyelem) (rb: rebuilder) (m: occmap) : occmap :=
  match m with
  | [] => [(k, [rb])]
  | (k', l) :: r => if key_eqb k k' then (k', l ++ [rb]) :: r else (k', l) :: occ_add k rb r
  end.

(* the common loop of the three _add_occurences_* methods:
   for original_subset in combinations(<elems>, self.size): ... *)
Definition add_subsets (size index: nat) (sub: option bodyelem) (subsub: option belem)
           (elems: list bodyelem) (m: occmap) : result occmap :=
  fold_left (fun (acc: result occmap) (original_subset: list bodyelem) =>
               rbind acc (fun m =>
               rbind (collect_binding_information_body original_subset None) (fun bu =>
               if nonempty (snd bu) then Ok m else
               let '(new_subset, oldvars2newvars) := anonymize_variables original_subset in
               Ok (occ_add new_subset
                           (mk_rb index sub subsub original_subset new_subset oldvars2newvars
                                  (invert oldvars2newvars)) m))))
            (combinations elems size) (Ok m).

Definition add_occurences_from_body (size index: nat) (body: list bodyelem) (m: occmap) : result occmap :=
  add_subsets size index None None body m.

Definition add_occurences_from_conditionals (size index: nat) (body: list bodyelem) (m: occmap) : result occmap :=
  fold_left (fun (acc: result occmap) (lit: bodyelem) =>
               match lit with
               | BCond _ c => rbind acc (add_subsets size index (Some lit) None (map BLit c))
               | _ => acc
               end) body (Ok m).

Definition add_occurences_from_body_aggregate (size index: nat) (body: list bodyelem) (m: occmap) : result occmap :=
  fold_left (fun (acc: result occmap) (lit: bodyelem) =>
               match lit with
               | BLit (Lit _ (ABodyAgg _ _ es _)) =>
                   fold_left (fun (acc: result occmap) (element: belem) =>
                                rbind acc (add_subsets size index (Some lit) (Some element) (map BLit (snd element))))
                             es acc
               | _ => acc
               end) body (Ok m).

(* the loop of __init__ before _filter_occurences *)
Fixpoint collect_loop (size index: nat) (prg: list stmt) (m: occmap) : result occmap :=
  match prg with
  | [] => Ok m
  | stm :: prg' =>
      rbind (match stm with
             | SRule _ _ body =>
                 rbind (add_occurences_from_body size index body m) (fun m =>
                 rbind (add_occurences_from_conditionals size index body m) (fun m =>
                 add_occurences_from_body_aggregate size index body m))
             | SMin _ _ _ _ body => add_occurences_from_body size index body m
             | _ => Ok m
             end) (collect_loop size (S index) prg')
  end.

Definition collect_unfiltered (size: nat) (prg: list stmt) : result occmap :=
  if existsb stmt_opaque prg then OutOfFragment else collect_loop size 0 prg [].

(* ---------- _filter_occurences ---------- *)
(* nx.connected_components: merge the cliques *)
Definition merge_clique (comps: list vset) (c: vset) : list vset :=
  let hit := filter (fun comp => existsb (fun x => Binding.smem x c) comp) comps in
  let miss := filter (fun comp => negb (existsb (fun x => Binding.smem x c) comp)) comps in
  supdate (fold_left supdate hit []) c :: miss.
Definition connected_components (cliques: list vset) : list vset :=
  fold_left merge_clique (filter (fun c => Nat.leb 2 (List.length c)) cliques) [].

(* false = the subset goes to `remove` *)
Definition keep_subset (subset: list bodyelem) : result bool :=
  rbind (rmapM (fun lit => global_vars_inside_body [lit]) subset) (fun var_sets =>
  let all_vars := fold_left supdate var_sets [] in
  let cc := connected_components var_sets in
  let ncc := List.length cc in
  if orb (Nat.ltb 1 ncc) (andb (Nat.eqb ncc 0) (Nat.ltb 1 (List.length all_vars))) then Ok false
  else match cc with
       | [c] => if andb (ssubset c all_vars) (negb (ssubset all_vars c)) then Ok false else Ok true
       | _ => Ok true
       end).

Fixpoint filter_occurences (m: occmap) : result occmap :=
  match m with
  | [] => Ok []
  | (k, l) :: r =>
      rbind (keep_subset k) (fun keep =>
      rbind (filter_occurences r) (fun r' => Ok (if keep then (k, l) :: r' else r')))
  end.

(* LiteralCollector(size, prg, additional_rules).occurences *)
Definition collect_occurences (size: nat) (prg: list stmt) : result occmap :=
  rbind (collect_unfiltered size prg) filter_occurences.

(* ---------- rebuild ---------- *)
Definition aux_lit (predicate_name: string) (variables: list string) : lit :=
  Lit NoSign (ASym (TFun predicate_name (map TVar variables) false)).

Definition stmt_body_of (s: stmt) : result (list bodyelem) :=
  match s with
  | SRule _ _ b => Ok b
  | SMin _ _ _ _ b => Ok b
  | SShowTerm _ b => Ok b
  | _ => Raise "AttributeError"
  end.
Definition stmt_update_body (s: stmt) (b: list bodyelem) : stmt :=
  match s with
  | SRule line h _ => SRule line h b
  | SMin line w p ts _ => SMin line w p ts b
  | SShowTerm t _ => SShowTerm t b
  | _ => s
  end.

Definition in_orig (rb: rebuilder) (x: bodyelem) : bool := mem bodyelem_eqb x (rb_orig rb).

Definition rebuild (prg: list stmt) (rb: rebuilder) (predicate_name: string) (variables: list string)
  : result (list bodyelem) :=
  match nth_error prg (rb_ruleid rb) with
  | None => Raise "IndexError"
  | Some rule =>
      rbind (stmt_body_of rule) (fun body =>
      let al := aux_lit predicate_name variables in
      match rb_sub rb with
      | None =>
          Ok (filter (fun lit => negb (in_orig rb lit)) body ++ [BLit al])
      | Some (BCond l c) =>
          let new_body := filter (fun lit => negb (bodyelem_eqb lit (BCond l c))) body in
          let new_condition := filter (fun lit => negb (in_orig rb (BLit lit))) c ++ [al] in
          Ok (new_body ++ [BCond l new_condition])
      | Some (BLit (Lit s (ABodyAgg lg f es rg))) =>
          match rb_subsub rb with
          | None => Raise "AssertionError"
          | Some sse =>
              let sub := BLit (Lit s (ABodyAgg lg f es rg)) in
              let new_body := filter (fun lit => negb (bodyelem_eqb lit sub)) body in
              let new_condition := filter (fun lit => negb (in_orig rb (BLit lit))) (snd sse) ++ [al] in
              let new_conditions := filter (fun clit => negb (belem_eqb clit sse)) es ++ [(fst sse, new_condition)] in
              Ok (new_body ++ [BLit (Lit s (ABodyAgg lg f new_conditions rg))])
          end
      | Some _ => Raise "UnboundLocalError"     (* the `else: assert "<non-empty string>"` branch *)
      end)
  end.

(* ---------- process ---------- *)
Record pstate := mk_ps {
  ps_prg : list stmt;                       (* self.prg (the caller's newprogram, updated in place) *)
  ps_add : list (nat * list stmt);          (* self.additional_rules *)
  ps_changed : list nat;                    (* changed_rules *)
  ps_names : unames
}.

Fixpoint add_additional (k: nat) (r: stmt) (m: list (nat * list stmt)) : list (nat * list stmt) :=
  match m with
  | [] => [(k, [r])]
  | (k', l) :: m' => if Nat.eqb k k' then (k', l ++ [r]) :: m' else (k', l) :: add_additional k r m'
  end.

Definition place_eqb (a b: rebuilder) : bool :=
  andb (Nat.eqb (rb_ruleid a) (rb_ruleid b))
       (andb (option_eqb bodyelem_eqb (rb_sub a) (rb_sub b)) (option_eqb belem_eqb (rb_subsub a) (rb_subsub b))).
(* len({(b.ruleid, b.sub_ast, b.sub_sub_ast) for b in rulebuilding}) *)
Definition count_places (l: list rebuilder) : nat :=
  List.length (fold_left (fun acc rb => if existsb (place_eqb rb) acc then acc else acc ++ [rb]) l []).

Fixpoint set_nth {A} (n: nat) (x: A) (l: list A) : list A :=
  match l, n with
  | [], _ => []
  | _ :: r, 0 => x :: r
  | y :: r, S n' => y :: set_nth n' x r
  end.

Definition process_builder (aux_name: string) (bound: list string) (st: pstate) (rb: rebuilder) : result pstate :=
  if nmem (rb_ruleid rb) (ps_changed st) then Ok st else
  let changed := ps_changed st ++ [rb_ruleid rb] in
  match nth_error (ps_prg st) (rb_ruleid rb) with
  | None => Raise "IndexError"
  | Some rule =>
      let reverted_bound := unanonymize_variables bound (rb_new2old rb) in
      rbind (rebuild (ps_prg st) rb aux_name reverted_bound) (fun new_body =>
      match new_body with
      | [] => Ok (mk_ps (ps_prg st) (ps_add st) changed (ps_names st))        (* if new_body: *)
      | _ => Ok (mk_ps (set_nth (rb_ruleid rb) (stmt_update_body rule new_body) (ps_prg st))
                       (ps_add st) changed (ps_names st))
      end)
  end.

Definition process_entry (st: pstate) (entry: list bodyelem * list rebuilder) : result pstate :=
  let '(literal_set, rulebuilding) := entry in
  if negb (Nat.ltb 1 (List.length rulebuilding)) then Ok st else
  if existsb (fun rb => nmem (rb_ruleid rb) (ps_changed st)) rulebuilding then Ok st else
  (* check for overlaps and ignore if nothing is left *)
  if Nat.leb (count_places rulebuilding) 1 then Ok st else
  let min_index := fold_left Nat.min (map rb_ruleid rulebuilding) (List.length (ps_prg st)) in
  rbind (collect_binding_information_body literal_set None) (fun bu =>
  let bound := sort_strings_as_vars (fst bu) in
  rbind (new_auxpredicate (ps_names st) (List.length bound)) (fun r =>
  let aux_name := fst (fst r) in
  let new_rule := SRule LOC_line (HLit (aux_lit aux_name bound)) literal_set in
  let st1 := mk_ps (ps_prg st) (add_additional min_index new_rule (ps_add st)) (ps_changed st) (snd r) in
  fold_left (fun (acc: result pstate) rb => rbind acc (fun st => process_builder aux_name bound st rb))
            rulebuilding (Ok st1))).

(* lc.process(unique_names) for a collector with the given occurences *)
Definition process (occ: occmap) (prg: list stmt) (names: unames) : result pstate :=
  fold_left (fun (acc: result pstate) entry => rbind acc (fun st => process_entry st entry))
            occ (Ok (mk_ps prg [] [] names)).

(* lc = LiteralCollector(size, prg, {}); lc.process(unique_names) *)
Definition collect_and_process (size: nat) (prg: list stmt) (names: unames) : result pstate :=
  rbind (collect_occurences size prg) (fun occ => process occ prg names).

(* ================================================================================================ *)
(* LiteralDuplicationTranslator                                                                     *)
(* ================================================================================================ *)
Definition compute_size_from_body (rule: stmt) : result nat :=
  match rule with SRule _ _ b => Ok (List.length b) | _ => Raise "AssertionError" end.
Definition compute_size_from_minimize (stm: stmt) : result nat :=
  match stm with SMin _ _ _ _ b => Ok (List.length b) | _ => Raise "AssertionError" end.
Definition compute_max_size_from_conditionals (rule: stmt) : result nat :=
  match rule with
  | SRule _ _ b =>
      Ok (fold_left (fun max_size lit => match lit with BCond _ c => Nat.max max_size (List.length c) | _ => max_size end) b 0)
  | _ => Raise "AssertionError"
  end.
Definition compute_max_size_from_body_aggregate (rule: stmt) : result nat :=
  match rule with
  | SRule _ _ b =>
      Ok (fold_left (fun max_size lit =>
                       match lit with
                       | BLit (Lit _ (ABodyAgg _ _ es _)) =>
                           fold_left (fun max_size (element: belem) => Nat.max max_size (List.length (snd element))) es max_size
                       | _ => max_size
                       end) b 0)
  | _ => Raise "AssertionError"
  end.

(* LiteralDuplicationTranslator.__init__: UniqueNames(prg, input_predicates), then DomainPredicates(...)
   which may reserve names and may raise *)
Definition translator_init (prg: list stmt) (input_predicates: list pred) : result unames :=
  rbind (Dependency.dp_init (init_names prg input_predicates) prg) (fun st => Ok (Dependency.unique_names st)).

(* one line of newprogram / prg / restore (the three lists always have the same length) *)
Record row := mk_row { r_new : stmt; r_old : stmt; r_restore : bool }.

(* the first loop of execute: (newprogram, maxsize) *)
Fixpoint prepare (prg: list stmt) (maxsize: nat) : result (list stmt * nat) :=
  match prg with
  | [] => Ok ([], maxsize)
  | stm :: prg' =>
      rbind (replace_assignments stm) (fun new =>
      rbind (match stm with
             | SRule _ _ _ =>
                 rbind (compute_size_from_body new) (fun a =>
                 rbind (compute_max_size_from_conditionals new) (fun b =>
                 rbind (compute_max_size_from_body_aggregate new) (fun c =>
                 Ok (Nat.max (Nat.max (Nat.max maxsize a) b) c))))
             | SMin _ _ _ _ _ => rbind (compute_size_from_minimize new) (fun a => Ok (Nat.max maxsize a))
             | _ => Ok maxsize
             end) (fun maxsize' =>
      rbind (prepare prg' maxsize') (fun r => Ok (new :: fst r, snd r))))
  end.

Definition lookup_additional (i: nat) (m: list (nat * list stmt)) : list stmt :=
  flat_map (fun kv => if Nat.eqb (fst kv) i then snd kv else []) m.

(* for index in changed_rules: restore[index] = False; then the slice insertions in reverse index order *)
Fixpoint merge_rows (i: nat) (rows: list row) (newprogram: list stmt) (changed: list nat)
         (additional: list (nat * list stmt)) : list row :=
  match rows, newprogram with
  | rw :: rows', new :: newprogram' =>
      map (fun r => mk_row r r false) (lookup_additional i additional)
      ++ mk_row new (r_old rw) (if nmem i changed then false else r_restore rw)
      :: merge_rows (S i) rows' newprogram' changed additional
  | _, _ => []
  end.

Fixpoint execute_loop (fuel size: nat) (names: unames) (rows: list row) : result (list row) :=
  if Nat.leb size 1 then Ok rows else
  match fuel with
  | 0 => OutOfFuel
  | S fuel' =>
      rbind (collect_and_process size (map r_new rows) names) (fun st =>
      let size' := match ps_changed st with [] => size - 1 | _ => size end in
      execute_loop fuel' size' (ps_names st) (merge_rows 0 rows (ps_prg st) (ps_changed st) (ps_add st)))
  end.

Definition count_lits_bodyelem (b: bodyelem) : nat :=
  match b with
  | BCond _ c => 1 + List.length c
  | BLit (Lit _ (ABodyAgg _ _ es _)) => 1 + fold_left (fun n (e: belem) => n + List.length (snd e)) es 0
  | _ => 1
  end.
Definition count_lits (s: stmt) : nat :=
  match s with
  | SRule _ _ b => fold_left (fun n x => n + count_lits_bodyelem x) b 1
  | SMin _ _ _ _ b => fold_left (fun n x => n + count_lits_bodyelem x) b 1
  | _ => 0
  end.
Definition execute_fuel (prg: list stmt) (maxsize: nat) : nat :=
  maxsize + 8 + 4 * fold_left (fun n s => n + count_lits s) prg 0.

(* X.execute(prg) for a translator whose UniqueNames object is `names` *)
Definition execute_with (names: unames) (prg: list stmt) : result (list stmt * list bool) :=
  if existsb stmt_opaque prg then OutOfFragment else
  rbind (prepare prg 0) (fun r =>
  let '(newprogram, maxsize) := r in
  let rows := map (fun p => mk_row (fst p) (snd p) true) (combine newprogram prg) in
  rbind (execute_loop (execute_fuel prg maxsize) maxsize names rows) (fun rows =>
  Ok (map (fun rw => if r_restore rw then r_old rw else r_new rw) rows, map r_restore rows))).

(* X = LiteralDuplicationTranslator(ctor_prg, input_predicates); X.execute(prg) *)
Definition execute2 (ctor_prg: list stmt) (input_predicates: list pred) (prg: list stmt) : result (list stmt) :=
  if existsb stmt_opaque (ctor_prg ++ prg) then OutOfFragment else
  rbind (translator_init ctor_prg input_predicates) (fun names =>
  rbind (execute_with names prg) (fun r => Ok (fst r))).
Definition execute (prg: list stmt) (input_predicates: list pred) : result (list stmt) :=
  execute2 prg input_predicates prg.
(* the same with the final `restore` list *)
Definition execute_flags (prg: list stmt) (input_predicates: list pred) : result (list stmt * list bool) :=
  if existsb stmt_opaque prg then OutOfFragment else
  rbind (translator_init prg input_predicates) (fun names => execute_with names prg).

(* ================================================================================================ *)
(* comparison helpers for the correspondence families (vlib/fam_duplication.py)                     *)
(* ================================================================================================ *)
Definition smap_eqb : smap -> smap -> bool := list_eqb (pair_eqb String.eqb String.eqb).
Definition body_eqb : list bodyelem -> list bodyelem -> bool := list_eqb bodyelem_eqb.

Definition chk_string (a b: string) : bool := String.eqb a b.
Definition chk_stmt (model obs: result stmt) : bool := chk_result stmt_eqb model obs.
Definition chk_nat (model obs: result nat) : bool := chk_result Nat.eqb model obs.
(* anonymize_variables: the sorted list and the mapping in insertion order *)
Definition chk_anonymize (literals: list bodyelem) (obs: list bodyelem) (obs_map: smap) : bool :=
  if existsb theory_bodyelem literals then true else
  let r := anonymize_variables literals in
  andb (body_eqb (fst r) obs) (smap_eqb (snd r) obs_map).
Definition chk_strings2 (a b: list string) : bool := list_eqb String.eqb a b.

Definition rb_eqb (a b: rebuilder) : bool :=
  andb (place_eqb a b)
    (andb (body_eqb (rb_orig a) (rb_orig b))
      (andb (body_eqb (rb_new a) (rb_new b))
        (andb (smap_eqb (rb_old2new a) (rb_old2new b)) (smap_eqb (rb_new2old a) (rb_new2old b))))).
Definition occ_eqb : occmap -> occmap -> bool := list_eqb (pair_eqb key_eqb (list_eqb rb_eqb)).
Definition chk_occ (model obs: result occmap) : bool := chk_result occ_eqb model obs.

(* _filter_occurences on given keys: the kept keys in order *)
Definition filter_keys (keys: list (list bodyelem)) : result (list (list bodyelem)) :=
  if existsb (existsb theory_bodyelem) keys then OutOfFragment else
  rbind (filter_occurences (map (fun k => (k, [])) keys)) (fun m => Ok (map fst m)).
Definition chk_keys (model obs: result (list (list bodyelem))) : bool := chk_result (list_eqb key_eqb) model obs.

Definition chk_body (model obs: result (list bodyelem)) : bool := chk_result body_eqb model obs.

(* process: changed_rules (sorted by the family), the program afterwards, additional_rules sorted by key,
   the final auxcounter *)
Definition nat_leb_insert (x: nat) (l: list nat) : list nat :=
  (fix ins (l: list nat) : list nat := match l with [] => [x] | y :: r => if Nat.leb x y then x :: l else y :: ins r end) l.
Definition sort_nats (l: list nat) : list nat := fold_right nat_leb_insert [] l.
Definition sorted_additional (m: list (nat * list stmt)) : list (nat * list stmt) :=
  map (fun k => (k, lookup_additional k m)) (sort_nats (map fst m)).
Definition prog_eqb : list stmt -> list stmt -> bool := list_eqb stmt_eqb.
Definition pobs := (list nat * list stmt * list (nat * list stmt) * nat)%type.
Definition pstate_obs (st: pstate) : pobs :=
  (sort_nats (ps_changed st), ps_prg st, sorted_additional (ps_add st), auxcounter (ps_names st)).
Definition pobs_eqb (a b: pobs) : bool :=
  let '(c, p, ad, n) := a in
  let '(c', p', ad', n') := b in
  andb (list_eqb Nat.eqb c c')
    (andb (prog_eqb p p') (andb (list_eqb (pair_eqb Nat.eqb prog_eqb) ad ad') (Nat.eqb n n'))).
Definition chk_process (model: result pstate) (obs: result pobs) : bool :=
  chk_result pobs_eqb (rbind model (fun st => Ok (pstate_obs st))) obs.

(* execute: the statements and, for the variant with the restore flags, which lines were restored *)
Definition chk_execute_flags (model obs: result (list stmt * list bool)) : bool :=
  chk_result (pair_eqb prog_eqb (list_eqb Bool.eqb)) model obs.

(* strict variants: the family predicts on the Python side that the case is inside the fragment, so an
   OutOfFragment answer of the model counts as a mismatch *)
Definition chk_stmt_strict (model obs: result stmt) : bool := result_eqb stmt_eqb model obs.
Definition chk_nat_strict (model obs: result nat) : bool := result_eqb Nat.eqb model obs.
Definition chk_anonymize_strict (literals: list bodyelem) (obs: list bodyelem) (obs_map: smap) : bool :=
  let r := anonymize_variables literals in
  andb (body_eqb (fst r) obs) (smap_eqb (snd r) obs_map).
Definition chk_occ_strict (model obs: result occmap) : bool := result_eqb occ_eqb model obs.
Definition chk_keys_strict (model obs: result (list (list bodyelem))) : bool := result_eqb (list_eqb key_eqb) model obs.
Definition chk_body_strict (model obs: result (list bodyelem)) : bool := result_eqb body_eqb model obs.
Definition chk_process_strict (model: result pstate) (obs: result pobs) : bool :=
  result_eqb pobs_eqb (rbind model (fun st => Ok (pstate_obs st))) obs.
Definition chk_execute_strict (model obs: result (list stmt * list bool)) : bool :=
  result_eqb (pair_eqb prog_eqb (list_eqb Bool.eqb)) model obs.
