(* Model of ngo.utils.parser.PredicateList.__call__ (the --input-predicates / --output-predicates values).
   The separator / token constants come from Gen/Cli.v (regenerated from the source on every run; the
   translator recognises the exact statement list of the method and fails closed otherwise).
   No proofs here. *)
From Coq Require Import List String Ascii ZArith Bool.
From NGO Require Import Syntax.Ast Gen.Cli.
Import ListNotations.
Open Scope string_scope. Open Scope list_scope.

Definition first_char (s: string) : ascii := match s with String c _ => c | EmptyString => " "%char end.

(* str.split(sep) for a one-character separator: always at least one part *)
Fixpoint split_on (sep: ascii) (s: string) : list string :=
  match s with
  | EmptyString => [EmptyString]
  | String c r =>
      if Ascii.eqb c sep then EmptyString :: split_on sep r
      else match split_on sep r with
           | [] => [String c EmptyString]
           | p :: ps => String c p :: ps
           end
  end.

Fixpoint lstrip (ch: ascii) (s: string) : string :=
  match s with String c r => if Ascii.eqb c ch then lstrip ch r else s | EmptyString => s end.
Fixpoint rev_string (s acc: string) : string :=
  match s with EmptyString => acc | String c r => rev_string r (String c acc) end.
Definition strip (ch: ascii) (s: string) : string :=
  rev_string (lstrip ch (rev_string (lstrip ch s) EmptyString)) EmptyString.

(* Python int(str): surrounding ASCII whitespace, optional sign, decimal digits with single '_' between digits *)
Definition is_ws (c: ascii) : bool :=
  let n := nat_of_ascii c in orb (Nat.eqb n 32) (andb (Nat.leb 9 n) (Nat.leb n 13)).
Fixpoint lstrip_ws (s: string) : string :=
  match s with String c r => if is_ws c then lstrip_ws r else s | EmptyString => s end.
Definition strip_ws (s: string) : string :=
  rev_string (lstrip_ws (rev_string (lstrip_ws s) EmptyString)) EmptyString.
Definition digit_of (c: ascii) : option Z :=
  let n := nat_of_ascii c in
  if andb (Nat.leb 48 n) (Nat.leb n 57) then Some (Z.of_nat (n - 48)) else None.

(* state: acc, and whether the previous character was a digit (an underscore needs a digit on both sides) *)
Fixpoint digits (s: string) (acc: Z) (prev_digit: bool) : option Z :=
  match s with
  | EmptyString => if prev_digit then Some acc else None
  | String c r =>
      match digit_of c with
      | Some d => digits r (acc * 10 + d)%Z true
      | None => if andb (Ascii.eqb c "_"%char) prev_digit
                then match r with
                     | String c' _ => match digit_of c' with Some _ => digits r acc false | None => None end
                     | EmptyString => None
                     end
                else None
      end
  end.

Definition py_int (s: string) : option Z :=
  match strip_ws s with
  | String "-"%char r => option_map Z.opp (digits r 0%Z false)
  | String "+"%char r => digits r 0%Z false
  | r => digits r 0%Z false
  end.

Inductive predlist := PLAuto | PLList (l: list (string * Z)).

Fixpoint parse_parts (parts: list string) : result (list (string * Z)) :=
  match parts with
  | [] => Ok []
  | p :: rest =>
      let sl := split_on (first_char predlist_arity_sep) p in
      if negb (Nat.eqb (List.length sl) predlist_parts) then Raise "ArgumentTypeError"
      else
        let name := strip (first_char predlist_strip) (nth 0 sl EmptyString) in
        match py_int (nth 1 sl EmptyString) with
        | None => Raise "ArgumentTypeError"
        | Some a =>
            match parse_parts rest with
            | Ok l => Ok ((name, a) :: l)
            | e => e
            end
        end
  end.

(* values = None is modelled as the empty string (both give []) *)
Definition parse_predicate_list (values: string) : result predlist :=
  if String.eqb values predlist_auto_token then Ok PLAuto
  else if String.eqb values "" then Ok (PLList [])
  else match parse_parts (split_on (first_char predlist_sep) values) with
       | Ok l => Ok (PLList l)
       | Raise e => Raise e
       | OutOfFragment => OutOfFragment
       | OutOfFuel => OutOfFuel
       end.

Fixpoint zpairs_eqb (a b: list (string * Z)) : bool :=
  match a, b with
  | [], [] => true
  | (n, x) :: r, (m, y) :: s => andb (andb (String.eqb n m) (Z.eqb x y)) (zpairs_eqb r s)
  | _, _ => false
  end.

(* observed: None = the real action raised ArgumentTypeError; Some None = "auto"; Some (Some l) = list *)
Definition chk_predlist (r: result predlist) (obs: option (option (list (string * Z)))) : bool :=
  match r, obs with
  | Raise _, None => true
  | Ok PLAuto, Some None => true
  | Ok (PLList l), Some (Some o) => zpairs_eqb l o
  | _, _ => false
  end.
