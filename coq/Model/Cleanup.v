(* Executable model of ngo/cleanup.py (CleanupTranslator), function by function, same names.
   No proofs here.  Correspondence families: vlib/fam_cleanup.py
   (cleanup_mappings, cleanup_superseeded, cleanup_apply, cleanup_execute_core).

   Conventions
   * Python `set[Mapping]`  = duplicate-free `list Mapping` in insertion order; the hash order of the
     real set is only observable through exceptions on ill-formed mappings (never produced by
     `_create_mappings`), results are compared modulo order (chk_mappings).
   * `self.superseeds` is threaded explicitly: functions that read it take it as an argument,
     `_find_superseeded` takes the old value and returns the new one.
   * A head / body "symbol" (a clingo Function node) is the pair (name, arguments).
   * Python exceptions: `Raise "AssertionError"`, `Raise "IndexError"`; loops with explicit fuel
     answer `OutOfFuel`, never a partial value. *)
From Coq Require Import List String ZArith Bool Arith.
From NGO Require Import Syntax.Ast Model.Traverse.
Import ListNotations.
Open Scope string_scope. Open Scope list_scope.

(* ------------------------------------------------------------------------------------------ *)
(* Mapping (cleanup.py:19-29) and sets of mappings                                             *)
(* ------------------------------------------------------------------------------------------ *)
Record Mapping := mkMapping { head_pred: pred; body_pred: spred; var_map: list nat }.

Definition Mapping_eqb (a b: Mapping) : bool :=
  pred_eqb (head_pred a) (head_pred b) && spred_eqb (body_pred a) (body_pred b)
  && list_eqb Nat.eqb (var_map a) (var_map b).

Definition mmem (m: Mapping) (s: list Mapping) : bool := existsb (Mapping_eqb m) s.
Definition madd (m: Mapping) (s: list Mapping) : list Mapping := if mmem m s then s else s ++ [m].
(* set.update(iterable) *)
Definition mupdate (s new: list Mapping) : list Mapping := fold_left (fun acc m => madd m acc) new s.
(* set(iterable) *)
Definition mset (l: list Mapping) : list Mapping := mupdate [] l.
(* set.intersection_update *)
Definition mintersect (s other: list Mapping) : list Mapping := filter (fun m => mmem m other) s.

(* ------------------------------------------------------------------------------------------ *)
(* utils.ast.is_predicate on a Literal                                                          *)
(* ------------------------------------------------------------------------------------------ *)
Definition symbol := (string * list term)%type.
Definition symbol_pred (sy: symbol) : pred := (fst sy, List.length (snd sy)).

(* lit.atom.symbol when lit.atom is a SymbolicAtom whose symbol is a Function node; the sign of the
   literal plays no role *)
Definition pred_symbol (l: lit) : option symbol :=
  match l with Lit _ (ASym (TFun n args _)) => Some (n, args) | _ => None end.
Definition is_predicate (l: lit) : bool := match pred_symbol l with Some _ => true | None => false end.
Definition lit_sign (l: lit) : sign := match l with Lit s _ => s end.

(* ------------------------------------------------------------------------------------------ *)
(* _create_mappings (cleanup.py:39-55)                                                          *)
(* ------------------------------------------------------------------------------------------ *)
(* head_symbol.arguments.index(arg): first position whose element == arg (AST equality) *)
Fixpoint index_of (arg: term) (l: list term) (i: nat) : option nat :=
  match l with
  | [] => None
  | x :: r => if term_eqb x arg then Some i else index_of arg r (S i)
  end.

(* yields the mappings in the order of body_lits (an iterator: duplicates possible) *)
Definition _create_mappings (head_symbol: symbol) (body_lits: list lit) : list Mapping :=
  let hp := symbol_pred head_symbol in
  flat_map (fun cond =>
    match cond with
    | Lit sg (ASym (TFun n args _)) =>
        let vm := flat_map (fun arg => match index_of arg (snd head_symbol) 0 with
                                       | Some i => [i] | None => [] end) args in
        if Nat.eqb (List.length vm) (List.length args)
        then [mkMapping hp (sg, (n, List.length args)) vm] else []
    | _ => []
    end) body_lits.

(* _collect_top_level_body_symbols (cleanup.py:57-65): conditional literals are skipped *)
Definition _collect_top_level_body_symbols (body: list bodyelem) : list lit :=
  flat_map (fun b => match b with
                     | BLit l => if is_predicate l then [l] else []
                     | BCond _ _ => [] end) body.

(* ------------------------------------------------------------------------------------------ *)
(* _compute_local_superseed (cleanup.py:67-101)                                                 *)
(* ------------------------------------------------------------------------------------------ *)
(* one element (literal, condition) of a HeadAggregate / Aggregate / Disjunction head:
   `continue` when the predicate differs, nothing when the literal is no predicate; otherwise the
   symbol is appended and the mappings of ITS condition are united into local_superseed *)
Definition head_element_step (p: pred) (acc: list symbol * list Mapping) (e: condlit)
  : list symbol * list Mapping :=
  match pred_symbol (fst e) with
  | Some sy =>
      if pred_eqb p (symbol_pred sy)
      then (fst acc ++ [sy], mupdate (snd acc) (_create_mappings sy (snd e)))
      else acc
  | None => acc
  end.

Definition _compute_local_superseed (p: pred) (rule: stmt) : result (list Mapping) :=
  match rule with
  | SRule _ h body =>
      let hs_ls : list symbol * list Mapping :=
        match h with
        | HLit l =>                     (* is_predicate(head): any sign *)
            match pred_symbol l with
            | Some sy => if pred_eqb p (symbol_pred sy) then ([sy], []) else ([], [])
            | None => ([], [])
            end
        | HHeadAgg _ _ es _ => fold_left (fun acc e => head_element_step p acc (snd e)) es ([], [])
        | HAgg _ es _ => fold_left (head_element_step p) es ([], [])
        | HDisj es => fold_left (head_element_step p) es ([], [])
        | HTheory _ => ([], [])
        end in
      let body_literals := _collect_top_level_body_symbols body in
      Ok (fold_left (fun ls sy => mupdate ls (_create_mappings sy body_literals)) (fst hs_ls) (snd hs_ls))
  | _ => Raise "AssertionError"         (* assert rule.ast_type == ASTType.Rule *)
  end.

(* ------------------------------------------------------------------------------------------ *)
(* transitive_closure (cleanup.py:103-124)                                                      *)
(* ------------------------------------------------------------------------------------------ *)
(* [lhs.var_map[m] for m in rhs.var_map] *)
Fixpoint compose_var_map (lv rv: list nat) : result (list nat) :=
  match rv with
  | [] => Ok []
  | m :: r =>
      match nth_error lv m with
      | Some x => rbind (compose_var_map lv r) (fun t => Ok (x :: t))
      | None => Raise "IndexError"
      end
  end.

(* one pass of the two nested for loops *)
Definition new_relations (closure: list Mapping) : result (list Mapping) :=
  fold_left (fun acc lhs =>
    fold_left (fun acc rhs =>
      rbind acc (fun nr =>
        if sign_eqb (fst (body_pred lhs)) NoSign && pred_eqb (snd (body_pred lhs)) (head_pred rhs)
        then rbind (compose_var_map (var_map lhs) (var_map rhs))
                   (fun vm => Ok (madd (mkMapping (head_pred lhs) (body_pred rhs) vm) nr))
        else Ok nr)) closure acc) closure (Ok []).

Fixpoint closure_loop (fuel: nat) (closure: list Mapping) : result (list Mapping) :=
  match fuel with
  | O => OutOfFuel
  | S f =>
      rbind (new_relations closure) (fun nr =>
        let closure_until_now := mupdate closure nr in
        (* closure <= closure_until_now, so the two sets are equal iff they have the same size *)
        if Nat.eqb (List.length closure_until_now) (List.length closure) then Ok closure
        else closure_loop f closure_until_now)
  end.

(* Fuel.  After k passes the closure contains every composition of at most 2^k of the given mappings,
   so the number of passes is at most log2 |F| + 2 where F is the final closure.  Every member of F
   has a head predicate and a body predicate of some given mapping, a var_map as long as some given
   var_map, with entries among the given entries: |F| <= n * n * (n*L+1)^L * n  for n mappings of
   var_map length <= L, hence log2 |F| <= 3n + L*(n+L+1).  The fuel below is far above that; should
   it ever be exhausted the answer is OutOfFuel, not a partial closure. *)
Definition closure_fuel (a: list Mapping) : nat :=
  let n := List.length a in
  let L := fold_left (fun acc m => Nat.max acc (List.length (var_map m))) a 0 in
  (n + 1) * (n + 1) + (L + 1) * (n + L + 1) + 3 * n + 4.

Definition transitive_closure (a: list Mapping) : result (list Mapping) :=
  let closure := mset a in
  closure_loop (closure_fuel closure) closure.

(* ------------------------------------------------------------------------------------------ *)
(* _find_superseeded (cleanup.py:126-149)                                                       *)
(* ------------------------------------------------------------------------------------------ *)
(* pred2rules: defaultdict(list), insertion ordered *)
Definition dict_append (d: list (pred * list nat)) (p: pred) (i: nat) : list (pred * list nat) :=
  if existsb (fun kv => pred_eqb (fst kv) p) d
  then map (fun kv => if pred_eqb (fst kv) p then (fst kv, snd kv ++ [i]) else kv) d
  else d ++ [(p, [i])].

Fixpoint build_pred2rules (input_predicates: list pred) (prg: list stmt) (index: nat)
  (d: list (pred * list nat)) : list (pred * list nat) :=
  match prg with
  | [] => d
  | stm :: r =>
      build_pred2rules input_predicates r (S index)
        (fold_left (fun d sp => if pmem (snd sp) input_predicates then d else dict_append d (snd sp) index)
                   (headderivable stm) d)
  end.

(* the loop over rule_ids: None, then the first local set, then intersections *)
Definition superseed_of_pred (prg: list stmt) (p: pred) (rule_ids: list nat) : result (option (list Mapping)) :=
  fold_left (fun acc id_ =>
    rbind acc (fun superseed =>
      match nth_error prg id_ with
      | None => Raise "IndexError"
      | Some rule =>
          rbind (_compute_local_superseed p rule) (fun loc =>
            Ok (Some (match superseed with None => loc | Some s => mintersect s loc end)))
      end)) rule_ids (Ok None).

(* returns the new value of self.superseeds; `superseeds` is the old one (empty for a fresh object) *)
Definition _find_superseeded (input_predicates: list pred) (superseeds: list Mapping) (prg: list stmt)
  : result (list Mapping) :=
  let pred2rules := build_pred2rules input_predicates prg 0 [] in
  rbind (fold_left (fun acc kv =>
           rbind acc (fun sups =>
             rbind (superseed_of_pred prg (fst kv) (snd kv)) (fun o =>
               match o with
               | Some s => Ok (mupdate sups s)
               | None => Raise "AssertionError"      (* assert isinstance(superseed, set) *)
               end))) pred2rules (Ok superseeds))
        transitive_closure.

(* ------------------------------------------------------------------------------------------ *)
(* _superseeded (cleanup.py:151-179)                                                            *)
(* ------------------------------------------------------------------------------------------ *)
Definition is_anon (t: term) : bool := match t with TVar x => String.eqb x "_" | _ => false end.

(* the zip loop of the same-predicate branch *)
Fixpoint same_pred_args (largs rargs: list term) : bool :=
  match largs, rargs with
  | l :: largs', r :: rargs' =>
      if is_anon r then same_pred_args largs' rargs'
      else if negb (term_eqb l r) then false
      else same_pred_args largs' rargs'
  | _, _ => true
  end.

(* for rhs_index, lhs_index in enumerate(m.var_map): no break, so every index is evaluated *)
Fixpoint fits_loop (rargs largs: list term) (rhs_index: nat) (vm: list nat) (fits: bool) : result bool :=
  match vm with
  | [] => Ok fits
  | lhs_index :: vm' =>
      match nth_error rargs rhs_index, nth_error largs lhs_index with
      | Some r, Some l => fits_loop rargs largs (S rhs_index) vm' (if term_eqb r l then fits else false)
      | _, _ => Raise "IndexError"
      end
  end.

Definition _superseeded (superseeds: list Mapping) (lhs rhs: lit) : result bool :=
  match pred_symbol lhs, pred_symbol rhs with
  | Some lsy, Some rsy =>
      if negb (sign_eqb (lit_sign lhs) NoSign) then Ok false
      else
        let lhs_pred := symbol_pred lsy in
        let rhs_pred := symbol_pred rsy in
        if pred_eqb lhs_pred rhs_pred
        then (if sign_eqb (lit_sign rhs) Neg then Ok false      (* a negated literal is never implied (fix 1) *)
              else Ok (same_pred_args (snd lsy) (snd rsy)))
        else
          (fix loop (ms: list Mapping) : result bool :=
             match ms with
             | [] => Ok false
             | m :: ms' =>
                 if pred_eqb (head_pred m) lhs_pred && pred_eqb (snd (body_pred m)) rhs_pred
                    && sign_eqb (fst (body_pred m)) (lit_sign rhs)
                 then rbind (fits_loop (snd rsy) (snd lsy) 0 (var_map m) true)
                            (fun fits => if fits then Ok true else loop ms')
                 else loop ms'
             end) superseeds
  | _, _ => Ok false
  end.

(* ------------------------------------------------------------------------------------------ *)
(* _remove_superseed_from_list (cleanup.py:181-193)                                             *)
(* the list holds body elements (Literal / ConditionalLiteral) or condition literals            *)
(* ------------------------------------------------------------------------------------------ *)
Section RemoveSuperseed.
  Context {A: Type} (as_lit: A -> option lit) (eqb: A -> A -> bool) (superseeds: list Mapping).

  (* _superseeded on arbitrary list members: anything that is not a Literal is no predicate *)
  Definition superseeded_elem (x y: A) : result bool :=
    match as_lit x, as_lit y with
    | Some l, Some r => _superseeded superseeds l r
    | _, _ => Ok false
    end.

  (* itertools.permutations(body, 2): (body[i], body[j]) for i ascending, j ascending, j <> i.
     find_rhs: the first j <> i with _superseeded(body[i], body[j]) *)
  Fixpoint find_rhs (lhs: A) (i j: nat) (l: list A) : result (option A) :=
    match l with
    | [] => Ok None
    | r :: l' =>
        if Nat.eqb i j then find_rhs lhs i (S j) l'
        else rbind (superseeded_elem lhs r) (fun b => if b then Ok (Some r) else find_rhs lhs i (S j) l')
    end.
  Fixpoint find_pair (whole: list A) (i: nat) (rest: list A) : result (option A) :=
    match rest with
    | [] => Ok None
    | lhs :: rest' =>
        rbind (find_rhs lhs i 0 whole) (fun o =>
          match o with Some r => Ok (Some r) | None => find_pair whole (S i) rest' end)
    end.

  (* list.remove(x): drops the FIRST member equal to x (AST equality, locations ignored) *)
  Fixpoint remove_first (x: A) (l: list A) : list A :=
    match l with
    | [] => []
    | y :: r => if eqb y x then r else y :: remove_first x r
    end.

  (* while not fix: every pass but the last removes one member, so len(body)+1 passes suffice *)
  Fixpoint remove_loop (fuel: nat) (body: list A) (updated: bool) : result (list A * bool) :=
    match fuel with
    | O => OutOfFuel
    | S f =>
        rbind (find_pair body 0 body) (fun o =>
          match o with
          | None => Ok (body, updated)
          | Some rhs => remove_loop f (remove_first rhs body) true
          end)
    end.

  (* returns (the list after the in-place removals, updated) *)
  Definition _remove_superseed_from_list (body: list A) : result (list A * bool) :=
    remove_loop (S (List.length body)) body false.
End RemoveSuperseed.

Definition bodyelem_as_lit (b: bodyelem) : option lit := match b with BLit l => Some l | BCond _ _ => None end.
Definition remove_superseed_body (sups: list Mapping) (body: list bodyelem) : result (list bodyelem * bool) :=
  _remove_superseed_from_list bodyelem_as_lit bodyelem_eqb sups body.
Definition remove_superseed_cond (sups: list Mapping) (c: list lit) : result (list lit * bool) :=
  _remove_superseed_from_list (fun l => Some l) lit_eqb sups c.

(* ------------------------------------------------------------------------------------------ *)
(* _apply_superseeding (cleanup.py:195-215)                                                     *)
(* ------------------------------------------------------------------------------------------ *)
Fixpoint mapM_upd {A: Type} (f: A -> result (A * bool)) (l: list A) : result (list A * bool) :=
  match l with
  | [] => Ok ([], false)
  | x :: r =>
      rbind (f x) (fun xu =>
        rbind (mapM_upd f r) (fun ru => Ok (fst xu :: fst ru, orb (snd xu) (snd ru))))
  end.

(* the aggregate branch of the loop body: every element condition is cleaned.  In Python this is
   written into `blit.atom.elements[...]`, i.e. into the node that the INPUT statement shares *)
Definition apply_aggregate (sups: list Mapping) (blit: bodyelem) : result (bodyelem * bool) :=
  match blit with
  | BLit (Lit s (ABodyAgg lg f es rg)) =>
      rbind (mapM_upd (fun e: belem => rbind (remove_superseed_cond sups (snd e))
                                        (fun cu => Ok ((fst e, fst cu), snd cu))) es)
            (fun eu => Ok (BLit (Lit s (ABodyAgg lg f (fst eu) rg)), snd eu))
  | BLit (Lit s (AAgg lg es rg)) =>
      rbind (mapM_upd (fun e: condlit => rbind (remove_superseed_cond sups (snd e))
                                          (fun cu => Ok ((fst e, fst cu), snd cu))) es)
            (fun eu => Ok (BLit (Lit s (AAgg lg (fst eu) rg)), snd eu))
  | _ => Ok (blit, false)
  end.

Definition apply_blit (sups: list Mapping) (blit: bodyelem) : result (bodyelem * bool) :=
  match blit with
  | BCond l c => rbind (remove_superseed_cond sups c) (fun cu => Ok (BCond l (fst cu), snd cu))
  | _ => apply_aggregate sups blit
  end.

Definition stmt_body (s: stmt) : option (list bodyelem) :=
  match s with SRule _ _ b => Some b | SMin _ _ _ _ b => Some b | _ => None end.
Definition stmt_update_body (s: stmt) (b: list bodyelem) : stmt :=
  match s with
  | SRule ln h _ => SRule ln h b
  | SMin ln w p ts _ => SMin ln w p ts b
  | _ => s
  end.

(* The returned statement.  `updated` is true as soon as any list changed, so when it is false
   `stm` itself is returned and nothing was mutated; when it is true the new body contains the new
   conditional literals and the (mutated in place) aggregate literals. *)
Definition _apply_superseeding (sups: list Mapping) (stm: stmt) : result stmt :=
  match stmt_body stm with
  | Some b =>
      rbind (remove_superseed_body sups b) (fun bu =>
        rbind (mapM_upd (apply_blit sups) (fst bu)) (fun bu' =>
          if orb (snd bu) (snd bu') then Ok (stmt_update_body stm (fst bu')) else Ok stm))
  | None => Ok stm
  end.

(* What the caller sees in the statement it passed in AFTER the call: the top level body and the
   conditional literals are untouched (they were copied), the aggregate elements were overwritten
   in place (aggregate literals are never removed from the body, so all of them are visited). *)
Definition _apply_superseeding_input_after (sups: list Mapping) (stm: stmt) : result stmt :=
  match stmt_body stm with
  | Some b =>
      rbind (remove_superseed_body sups b) (fun _ =>
        rbind (mapM_upd (apply_aggregate sups) b) (fun bu' => Ok (stmt_update_body stm (fst bu'))))
  | None => Ok stm
  end.

(* ------------------------------------------------------------------------------------------ *)
(* true / false (cleanup.py:217-239); named ct_true / ct_false because true/false are taken     *)
(* ------------------------------------------------------------------------------------------ *)
Definition true_lit (l: lit) : bool :=
  match l with
  | Lit s (ABool v) => match s with NoSign | NegNeg => v | Neg => negb v end
  | _ => false
  end.
Definition false_lit (l: lit) : bool :=
  match l with
  | Lit s (ABool v) => match s with NoSign | NegNeg => negb v | Neg => v end
  | _ => false
  end.
Definition ct_true (stm: bodyelem) : bool :=
  match stm with BLit l => true_lit l | BCond l [] => true_lit l | BCond _ _ => false end.
Definition ct_false (stm: bodyelem) : bool :=
  match stm with BLit l => false_lit l | BCond l [] => false_lit l | BCond _ _ => false end.

(* remove_true_literals / contains_false on bodies and on conditions *)
Definition remove_true_literals (lits: list bodyelem) : list bodyelem := filter (fun l => negb (ct_true l)) lits.
Definition remove_true_literals_cond (lits: list lit) : list lit := filter (fun l => negb (true_lit l)) lits.
Definition contains_false (lits: list bodyelem) : bool := existsb ct_false lits.
Definition contains_false_cond (lits: list lit) : bool := existsb false_lit lits.

(* cleanup_boolean_conditionals (cleanup.py:258-269) *)
Definition cleanup_boolean_conditionals (lits: list bodyelem) : list bodyelem :=
  flat_map (fun l =>
    match l with
    | BCond h c =>
        let cond := remove_true_literals_cond c in
        if contains_false_cond cond then [] else [BCond h cond]
    | _ => [l]
    end) lits.

(* cleanup_boolean_aggregates (cleanup.py:271-285): BodyAggregate only, not the old-style Aggregate *)
Definition cleanup_boolean_aggregates (lits: list bodyelem) : list bodyelem :=
  map (fun l =>
    match l with
    | BLit (Lit s (ABodyAgg lg f es rg)) =>
        BLit (Lit s (ABodyAgg lg f
          (flat_map (fun e: belem =>
             let cond := remove_true_literals_cond (snd e) in
             if contains_false_cond cond then [] else [(fst e, cond)]) es) rg))
    | _ => l
    end) lits.

(* remove_boolean (cleanup.py:287-295): None = the statement is dropped *)
Definition remove_boolean (stm: stmt) : option stmt :=
  match stmt_body stm with
  | Some b =>
      let b := cleanup_boolean_aggregates b in
      let b := cleanup_boolean_conditionals b in
      let b := remove_true_literals b in
      if contains_false b then None else Some (stmt_update_body stm b)
  | None => Some stm
  end.

(* ------------------------------------------------------------------------------------------ *)
(* execute without its first line `prg = inline_arithmetic(prg)` (cleanup.py:302-310)           *)
(* an AST object is always truthy, so `if r:` only filters None                                 *)
(* ------------------------------------------------------------------------------------------ *)
Definition execute_loop (sups: list Mapping) (prg: list stmt) : result (list stmt) :=
  fold_left (fun acc stm =>
    rbind acc (fun new_prg =>
      rbind (_apply_superseeding sups stm) (fun s =>
        match remove_boolean s with
        | Some r => Ok (new_prg ++ [r])
        | None => Ok new_prg
        end))) prg (Ok []).

(* with an explicit old value of self.superseeds; returns the program and the new self.superseeds *)
Definition execute_core_state (input_predicates: list pred) (superseeds: list Mapping) (prg: list stmt)
  : result (list stmt * list Mapping) :=
  rbind (_find_superseeded input_predicates superseeds prg) (fun sups =>
    rbind (execute_loop sups prg) (fun r => Ok (r, sups))).

(* a fresh CleanupTranslator(input_predicates) *)
Definition execute_core (input_predicates: list pred) (prg: list stmt) : result (list stmt) :=
  rbind (execute_core_state input_predicates [] prg) (fun r => Ok (fst r)).

(* ------------------------------------------------------------------------------------------ *)
(* comparison helpers for the correspondence shards                                             *)
(* ------------------------------------------------------------------------------------------ *)
Definition cresult_eqb {A} (e: A -> A -> bool) (x y: result A) : bool :=
  match x, y with
  | Ok a, Ok b => e a b
  | Raise k, Raise k' => String.eqb k k'
  | _, _ => false
  end.

(* sets of mappings modulo order: both duplicate free, same size, mutual inclusion *)
Fixpoint mnodup (l: list Mapping) : bool :=
  match l with [] => true | x :: r => negb (mmem x r) && mnodup r end.
Definition mset_eqb (a b: list Mapping) : bool :=
  mnodup a && mnodup b && Nat.eqb (List.length a) (List.length b)
  && forallb (fun m => mmem m b) a && forallb (fun m => mmem m a) b.

Definition chk_mappings (model obs: result (list Mapping)) : bool := cresult_eqb mset_eqb model obs.
Definition chk_rbool (model obs: result bool) : bool := cresult_eqb Bool.eqb model obs.
Definition chk_rbools (model obs: list (result bool)) : bool := list_eqb (cresult_eqb Bool.eqb) model obs.
Definition chk_rstmt (model obs: result stmt) : bool := cresult_eqb stmt_eqb model obs.
Definition chk_rstmts (model obs: list (result stmt)) : bool := list_eqb (cresult_eqb stmt_eqb) model obs.
Definition chk_ostmt (model obs: option stmt) : bool := option_eqb stmt_eqb model obs.
Definition chk_body (model obs: list bodyelem) : bool := list_eqb bodyelem_eqb model obs.
Definition chk_bools (model obs: list bool) : bool := list_eqb Bool.eqb model obs.
Definition chk_rprog (model obs: result (list stmt)) : bool := cresult_eqb (list_eqb stmt_eqb) model obs.

(* _superseeded on pairs of body elements after _find_superseeded of the whole program *)
Definition superseeded_pairs (input_predicates: list pred) (prg: list stmt)
  (pairs: list (bodyelem * bodyelem)) : result (list (result bool)) :=
  rbind (_find_superseeded input_predicates [] prg) (fun sups =>
    Ok (map (fun p => superseeded_elem bodyelem_as_lit sups (fst p) (snd p)) pairs)).
Definition chk_superseeded_pairs input_predicates prg pairs (obs: list (result bool)) : bool :=
  match superseeded_pairs input_predicates prg pairs with
  | Ok l => chk_rbools l obs
  | _ => false
  end.

(* _apply_superseeding on every statement of prg after _find_superseeded of the whole program:
   returned statements and the input statements as they look afterwards *)
Definition apply_all (input_predicates: list pred) (prg: list stmt) : result (list (result stmt) * list (result stmt)) :=
  rbind (_find_superseeded input_predicates [] prg) (fun sups =>
    Ok (map (_apply_superseeding sups) prg, map (_apply_superseeding_input_after sups) prg)).
Definition chk_apply_all input_predicates prg (obs_ret obs_after: list (result stmt)) : bool :=
  match apply_all input_predicates prg with
  | Ok r => chk_rstmts (fst r) obs_ret && chk_rstmts (snd r) obs_after
  | _ => false
  end.
