import json, glob, re
W=json.load(open("/verif/corpus/witness.json"))
WHAT={
"W-cleanup-samepred-neg": ("src/ngo/cleanup.py:162-168 _superseeded (same-predicate branch ignores rhs.sign)", "cleanup deletes `not p(X)` next to `p(X)`: `a :- p(X), not p(X).` becomes `a :- p(X).`"),
"W-cleanup-interval-head": ("src/ngo/cleanup.py:40-55 _create_mappings (syntactic argument match on interval terms)", "head arguments with intervals give unsound mappings: `a(X) :- p(X), q(X).` loses q(X); q(1): {a(1)} vs {a(1),a(2)}"),
"W-cleanup-element-union": ("src/ngo/cleanup.py:76-96 _compute_local_superseed (element mappings united, not intersected)", "`{p(X):c(X); p(X):d(X)}. a(X) :- p(X), c(X).` loses c(X)"),
"W-cleanup-anonymous-neg": ("src/ngo/cleanup.py:171-178 _superseeded (anonymous variables compare equal)", "`a :- p(_), not q(_).` loses `not q(_)`"),
"W-cleanup-anonymous-samepred": ("src/ngo/cleanup.py:162-168 _superseeded (rhs `_` matches anything, sign ignored)", "`a :- p(1), not p(_).` loses `not p(_)`"),
"W-normalize-negchain": ("src/ngo/normalize.py:76-83 normalize_operators (negated chain split link-wise)", "`not X < Y < Z` becomes `not X < Y; not Y < Z`; with p(1,2,1) the rule fires before, not after"),
"W-normalize-selfeq-fun": ("src/ngo/normalize.py:366-389 inline_rule (variable occurs in its own right-hand side)", "`p(X) :- q(X), X = f(X).` becomes `p(f(X)) :- q(f(X)).`"),
"W-normalize-selfeq-mul": ("src/ngo/normalize.py:366-389 inline_rule (variable occurs in its own right-hand side)", "`a :- b(X), X=X*3.` becomes `a :- b((X*3)).` (output pinned by tests/test_math_simplification.py)"),
"W-normalize-unsafe-inline": ("src/ngo/normalize.py:366-389 inline_rule (cyclic equalities)", "`foo1 :- c(Z), X = {b}; Y = {1>Z}; Z = 3*Y*X.` -> `c(((3*Y)*X))`, result unsafe (output pinned by tests)"),
"W-minmax-empty-domain": ("src/ngo/minmax_aggregates.py:277-301 (#inf/#sup rule needs a non-empty domain)", "min/max chain with empty candidate domain loses best(a,#inf)"),
"W-minmax-two-aggs-one-line": ("src/ngo/minmax_aggregates.py:391 (name from source line only, bypasses UniqueNames)", "two translated aggregates on one source line share __max_0_<line> and all chain predicates"),
"W-minmax-negated-literal": ("src/ngo/minmax_aggregates.py:329-372 replace_orig (drops the literal's sign)", "`not 3 > #min{...}` rewritten with a positive result atom"),
"W-sumchains-anon-group": ("src/ngo/sum_aggregates.py:257,358 (anonymous group argument becomes `none`)", "`#sum{L : shift(_,L)}` merges groups; sums differ"),
"W-sumchains-shared-tuple": ("src/ngo/sum_aggregates.py:73-134 _calc_at_most_on_rule (head #sum with shared tuple)", "at-most-one inferred from `#sum{1 : shift(D,L) : ...} <= 1` although several shifts per day are possible"),
"W-sumchains-per-instance": ("src/ngo/sum_aggregates.py:73-134 _calc_at_most_on_rule (per rule instance, not per group)", "at-most-one inferred although the element condition depends on a body variable that is not an argument of the atom"),
"W-math-mul-dropped": ("src/ngo/math_simplification.py execute (equality with multiplication solved away)", "`a :- b(X), X = Y*3.` becomes `a :- b(X).`"),
"W-math-inline-weak": ("src/ngo/inline.py:200-260 inline_minimize after math", "`:~ f(Z); X=#count{a:a}, Y=#count{b:b}. [Z+X+Y@1]` unfolds into three weak constraints with a different cost"),
"W-unused-show-term-cond": ("src/ngo/unused.py:86-129 analyze_usage (show-term bodies not scanned)", "position used only in a #show term condition is projected away: `#show c(X) : d(X).` -> `#show c(X) : d.` (unsafe)"),
"W-unused-repeated-head-var": ("src/ngo/unused.py:188-213 remove_single_copies (repeated head variable)", "`a(X,X) :- b(X,Y).` unfolded without the equality"),
"W-symmetry-mixed-sign": ("src/ngo/symmetry.py:339-354 (groups ignore literal sign)", "`s(J1,M), not s(J2,M), J1 != J2` gets `J1 < J2`"),
"W-symmetry-agg-tuple-vars": ("src/ngo/symmetry.py:376-377,216 (tuple variables not seen by the binding analysis)", "`#sum{1,J1,J2 : s(J1), s(J2), J1 != J2}` -> `#sum{1,J1,J2 : __aux_1}`, unsafe"),
"W-domain-negation": ("src/ngo/dependency.py:602-630 add_domain_rules (atoms under `not` replaced by domain predicates)", "`__dom_p(X,M) :- q(X,M); not __dom_r(X).` under-approximates p; symmetry's count rewrite loses a constraint"),
"W-math-mul-in-atom": ("src/ngo/math_simplification.py execute (after exline_arithmetic: AUX = X*2 solved away)", "`b :- a(X*2).` becomes `b :- a(AUX).`"),
"W-unused-copy-chain": ("src/ngo/unused.py:188-252 remove_single_copies (chains of copy rules)", "`a(X) :- b(X). b(X) :- c(X).` both short-circuited in one pass: the definition of b is lost and d(1) is no longer derived"),
"W-inline-unify-neg": ("src/ngo/utils/ast.py:192-227 _potentially_unifying (Function vs UnaryOperation declared non-unifying) used by inline", "tuples `F,f(V)` and `A,-B` can coincide when B = -f(1); inlining then changes #sum from 5 to 10"),
"W-unused-show-term-pool": ("src/ngo/unused.py:86-129 analyze_usage (show-term bodies not scanned)", "`#show a : s(1;2).` becomes `#show a : s.` twice: a non-rule statement is changed"),
"W-domain-ignores-input": ("src/ngo/dependency.py DomainPredicates.__compute_domains (facts of declared input predicates are not part of the domain)", "`{a(X)} :- d(X).` with input a/1: instance fact a(5) is not in __dom_a, so __dom_b misses b(5,1) and the rewritten constraint never fires"),
"W-unused-mapper-set-order": ("src/ngo/unused.py:168-176 Mapper.__init__ (`for v in vars_` iterates a set of AST nodes whose hash is address dependent)", "optimize is not reproducible across processes: the use-site variable A11 is captured in about half of the runs (`b(f(1,..),1)` instead of `b(f(A11,..),1)`), independent of PYTHONHASHSEED"),
"W-sumchains-shared-element": ("src/ngo/sum_aggregates.py _replace_elements (edits elem.condition through a live ASTSequence: aggregate elements shared between the rules produced by unpool are mutated twice)", "`a(X) :- X = #sum{L,D : shift(D,L)}, p(1;2).`: the second unpooled rule sums the chain atoms directly; a(2) before, a(3) after"),
"W-sumchains-projected-group": ("src/ngo/sum_aggregates.py _replace_optimize (group variable of the at-most-one predicate is not part of the objective tuple)", "`#minimize{ X : p(D,X) }` with `{p(D,X):q(D,X)} 1 :- d(D)`: equal values of different groups coincide in the source (cost 3) but not after the rewrite (cost 6)"),
"W-math-range-admits": ("src/ngo/math_simplification.py Goebner.combine (constant term not moved when one relation has no constant part)", "`:- X = #sum{..4 atoms..}, X >= 0, X <= 3.` becomes `0 >= #sum{...; -3,__agg(1)} >= 0`: answer sets appear although the source has none"),
"W-math-elim-used-in-agg": ("src/ngo/math_simplification.py execute (variable eliminated although still used inside a translated aggregate's element)", "`a :- s(N), X = N-1, 1 <= #sum{1,Z : r(Z,X), p(Z)}.`: X becomes local to the aggregate"),
"W-minmax-neg-eq": ("src/ngo/minmax_aggregates.py:329-372 replace_orig (drops the literal's sign)", "`a :- not 4 = #max{...}` becomes `a :- __max(4)`"),
"W-minmax-translate-params-crash": ("src/ngo/utils/ast.py:833-843 TranslationMap.translate_parameters (assert) via minmax_aggregates", "a variable shared between the aggregate and the body is projected out of the result head and the result is used in #minimize: AssertionError"),
"W-minmax-simple-negated-recursion": ("src/ngo/minmax_aggregates.py:444-461 _process_rule (negated one-sided bound takes the simple translation)", "`a :- not 1 < #min{X : p(X)}. p(0) :- a.`: the negated aggregate (evaluated in the candidate model only) becomes the positive body `p(X0); not 1 < X0`, the answer set {a, p(0)} loses its support (found while stating the HT soundness lemma for the dispatch table)"),
"W-duplication-selfeq": ("src/ngo/utils/ast.py:771-812 replace_assignments", "`X = X*3` substituted away by duplication's replace_assignments / postprocess"),
}
findings=[{"id":"C18-pool","properties":["C18"],"site":"src/ngo/utils/ast.py:293-302 literal_predicate (symbol.ast_type == Function only)","witness":{"text":"a :- p(1;2)."},"what":"atom written with a pool (a :- p(1;2).) is skipped by every predicate collector: auto_detect_input returns [] although p/1 occurs only in a body","matcher":"c18_unpool"}]
FIXED={"W-cleanup-samepred-neg":"ce607b1","W-cleanup-anonymous-samepred":"ce607b1"}
fixed=[]
for w in W:
    site,what=WHAT[w["id"]]
    if w["id"] in FIXED:
        fixed.append("fixed: property="+w["props"][0]+" "+FIXED[w["id"]]+" "+what+" ("+site+")")
        continue
    wit={k:w[k] for k in ("check","xproc","runs","text","traits","input","output","mode","instances") if k in w}
    props=w["props"]
    if w["id"].startswith("W-normalize"): props=sorted(set(props)|{"C01","C02","C05","C06","C08","C09","C10","C11","C12","C13","C14","C15","C16"})
    if w.get("check")=="c03":
        findings.append({"id":w["id"][2:],"properties":props,"site":site,"witness":{k:w[k] for k in ("check","text","traits","input","output")},"exc":w["exc"],"exc_site":w["exc_site"],"what":what,"matcher":"exc_site"})
        continue
    findings.append({"id":w["id"][2:],"properties":props,"site":site,"witness":wit,"what":what,"matcher":"text"})
# sweep failures on the fixed corpus not covered by a witness text
norm=lambda t: re.sub(r"\s+","",t)
wt={norm(w["text"]) for w in W}
extra={}
for f in sorted(glob.glob("/tmp/sweep_C*.json")):
    prop=f[11:14]
    if prop in ("C03","C04","C07","C17","C20"): continue
    for e in json.load(open(f)):
        t=e["case"]["text"].strip()
        if norm(t) in wt: continue
        extra.setdefault(t, {"props":set(),"case":e["case"],"fail":e["failure"]})["props"].add(prop)
for i,(t,d) in enumerate(sorted(extra.items())):
    c=d["case"]
    findings.append({"id":f"corpus-{i+1}","properties":sorted(d["props"]),"site":"see what","witness":{"text":c["text"],"traits":c["traits"],"input":c["input"],"output":c["output"],"mode":c["mode"],"instances":[d["fail"].get("instance","")]},
                     "what":d["fail"]["kind"]+" on a /repo/tests or corpus program: "+t[:80].replace("\n"," "),"matcher":"text"})
# C04 failures on the fixed corpus (text-matched; merged with existing entries of the same text)
for e in json.load(open("/tmp/sweep_C04.json")):
    t=norm(e["case"]["text"])
    hit=[f for f in findings if f.get("matcher")=="text" and norm(f["witness"]["text"])==t]
    if hit:
        if "C04" not in hit[0]["properties"]: hit[0]["properties"].append("C04")
        continue
    c=e["case"]
    findings.append({"id":f"corpus-c04-{len(findings)}","properties":["C04"],"site":"see what","witness":{"check":"c04","text":c["text"],"traits":c["traits"],"input":c["input"],"output":c["output"]},
                     "what":e["failure"]["kind"]+": "+c["text"].strip()[:100].replace("\n"," "),"matcher":"text"})
# C03 crashes: identified by exception class + innermost ngo frame
SITES={
 ("TypeError","unused.py:_add_usage"):"unused.analyze_usage iterates over the ConditionalLiteral of a HeadAggregate element: any head #sum/#count/#min/#max {...} raises TypeError: 'AST' object is not iterable",
 ("AssertionError","math_simplification.py:_to_sympy_bodyaggregate"):"math asserts that a body aggregate has a guard; normalisation removes #inf/#sup guards, e.g. `a :- #inf <= #sum{X:p(X)} <= #sup.`",
 ("AttributeError","unused.py:convert"):"classically negated atom `-q(X)` (symbol is a UnaryOperation) reaches code that reads symbol.name",
 ("AttributeError","dependency.py:atom2pred"):"classically negated atom `-p(1)` (symbol is a UnaryOperation) reaches code that reads symbol.name",
}
seen=set()
for e in json.load(open("/tmp/sweep_C03.json")):
    f=e["failure"]; k=(f.get("exc"), f.get("site"))
    if k in seen or f.get("kind")!="exception": continue
    seen.add(k)
    c=e["case"]
    findings.append({"id":"crash-"+k[1].replace(".py:","-"),"properties":["C03","C01"],"site":"src/ngo/"+k[1],"witness":{"check":"c03","text":c["text"],"traits":c["traits"],"input":c["input"],"output":c["output"]},
                     "exc":k[0],"exc_site":k[1],"what":SITES.get(k, k[0]+" in "+k[1]),"matcher":"exc_site"})
fixed.append("fixed: property=C03 b1156a8 any rule with a head #sum/#count/#min/#max aggregate made unused.analyze_usage raise TypeError: 'AST' object is not iterable (src/ngo/unused.py:86-93; e.g. `#sum{1,X : e(X) : f(X)} <= 2 :- g.` under the default traits)")
json.dump({"comment":"Genuine defects of the unchanged potassco/ngo tree that are recorded rather than repaired (DESIGN.md section 6 / appendix B). Never written at run time. Each entry: id, properties, call site, witness (what the oracle replays), what fails, matcher (how a concrete failure is attributed to this entry: `text` = the failing program text equals the witness text; `c18_unpool` = the failure disappears after unpooling).",
           "findings":findings,"fixed":fixed}, open("/verif/known_findings.json","w"), indent=1)
print(len(findings)); 
for f in findings[-8:]: print(f["id"], f["properties"], f["what"][:120])
