#!/usr/bin/env python3
"""developer tool (never run by a check): append confirmed findings to known_findings.json and corpus/witness.json.
usage: add_findings.py <file.json>   with a list of {id, props, site, what, witness:{text,traits,input,output,mode,instances}}
Each entry is replayed against the real code first; entries that do not fail are refused."""
import json
import sys
sys.path.insert(0, "/verif")
from vlib import props  # noqa: E402

new = json.load(open(sys.argv[1]))
K = json.load(open("/verif/known_findings.json"))
W = json.load(open("/verif/corpus/witness.json"))
have = {f["id"] for f in K["findings"]}
for n in new:
    if n["id"] in have:
        print("already listed:", n["id"])
        continue
    bad = []
    for p in n["props"]:
        try:
            f = props.oracle_check(p, dict(n["witness"]))
        except Exception as e:  # pylint: disable=broad-except
            f = None
            print("  oracle error", p, repr(e)[:200])
        if f is None:
            bad.append(p)
    keep = [p for p in n["props"] if p not in bad]
    if not keep:
        print("REFUSED (does not fail):", n["id"])
        continue
    if bad:
        print("  note:", n["id"], "does not fail for", bad)
    K["findings"].append({"id": n["id"], "properties": keep, "site": n["site"], "witness": n["witness"],
                          "what": n["what"], "matcher": n.get("matcher", "text")})
    W.append(dict({"id": "W-" + n["id"], "props": keep}, **n["witness"]))
    print("added", n["id"], keep)
json.dump(K, open("/verif/known_findings.json", "w"), indent=1)
json.dump(W, open("/verif/corpus/witness.json", "w"), indent=1)
