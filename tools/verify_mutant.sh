#!/bin/bash
# usage: verify_mutant.sh <seed-id>  -- confirms in a scratch worktree: tests pass with the patch, demo FAILs with it, PASSes without
id=$1; d=/verif/seeded/$id; wt=${WT:-/tmp/wt_verify}
cd $wt && git checkout -q -- . && git clean -fdq
git apply $d/patch.diff || { echo "$id: PATCH DOES NOT APPLY"; exit 2; }
cp $d/demo.py $wt/demo.py
sed -i "s#/tmp/wt_[A-Za-z0-9_]*#$wt#g" $wt/demo.py
t=$(PYTHONPATH=$wt/src /venv/bin/python -m pytest -q -p no:cacheprovider tests 2>&1 | tail -1)
PYTHONPATH=$wt/src timeout 600 /venv/bin/python demo.py > /tmp/demo_with_$id.out 2>&1; rc_with=$?
git checkout -q -- src
PYTHONPATH=$wt/src timeout 600 /venv/bin/python demo.py > /tmp/demo_without_$id.out 2>&1; rc_without=$?
rm -f demo.py
echo "$id: tests='$t' demo_with_patch_rc=$rc_with demo_without_patch_rc=$rc_without"
