#!/bin/bash
# runs every registered quick (or thorough) check once; prints a summary line per property
cd /verif
tier=${1:-quick}
for i in $(seq -w 1 20); do
  p=C$i
  start=$(date +%s)
  ./check $p --tier $tier > /tmp/runall_$p.log 2>&1; rc=$?
  end=$(date +%s)
  v=$(grep -c "^VIOLATION" /tmp/runall_$p.log)
  k=$(grep -c "^KNOWN-FINDING" /tmp/runall_$p.log)
  o=$(grep -o "obligations [0-9]*/[0-9]*" /tmp/runall_$p.log | tail -1)
  echo "$p exit=$rc violations=$v known=$k $o wall=$((end-start))s"
done
