#!/bin/bash
# developer tool: run a property check against a seeded mutant WITHOUT touching /repo or /verif's build:
# uses a scratch worktree of /repo (/tmp/wt_verify) and a scratch copy of /verif (/tmp/verif_mut).
# usage: test_mutant.sh <seed-id> <Cnn> [tier]
id=$1; prop=$2; tier=${3:-quick}
wt=${WT:-/tmp/wt_verify}; vm=${VM:-/tmp/verif_mut}
[ -d $wt ] || git -C /repo worktree add -q $wt HEAD
cd $wt && git checkout -q -- . && git clean -fdq && git apply /verif/seeded/$id/patch.diff || exit 2
# untracked (in-progress) files of /verif are not part of the machinery under test
git -C /verif ls-files --others --exclude-standard | sed 's#^#/#' > /tmp/.rsync_excl_$$
mkdir -p $vm && rsync -a --delete --delete-excluded --exclude .git --exclude evidence --exclude-from=/tmp/.rsync_excl_$$ /verif/ $vm/
rm -f /tmp/.rsync_excl_$$
cd $vm && NGO_REPO=$wt ./check $prop --tier $tier > /tmp/mut_$id.$prop.log 2>&1; rc=$?
grep -c "NOT DISCHARGED" /tmp/mut_$id.$prop.log | sed "s/^/$id $prop: undischarged theorems: /"
grep "correspondence .*mismatches=[1-9]\|errors=[1-9]" /tmp/mut_$id.$prop.log | cut -c1-160
grep "^VIOLATION" /tmp/mut_$id.$prop.log | head -3
echo "$id $prop: exit $rc"
cd $wt && git checkout -q -- .
