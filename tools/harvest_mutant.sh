#!/bin/bash
# usage: harvest_mutant.sh <worktree> <seed-id>   -- copies patch + demo out of a scratch worktree
set -e
wt=$1; id=$2
d=/verif/seeded/$id
mkdir -p $d
git -C $wt diff -- src > $d/patch.diff
cp $wt/demo.py $d/demo.py 2>/dev/null || true
wc -l $d/patch.diff
