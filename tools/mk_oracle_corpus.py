#!/usr/bin/env python3
"""developer tool: selects from corpus/<name>.lp the programs on which the unchanged tree satisfies every
oracle (all semantic property configurations + the structural checks) and writes them to
corpus/oracle_<name>.lp, which is part of the fixed oracle corpus (semprops.ORACLE_CORPUS)."""
import sys, os
sys.path.insert(0, "/verif")
from vlib import inputs, semprops

def main():
    for name in sys.argv[1:]:
        progs = [i for i in inputs.curated() if i["origin"].startswith(f"corpus:{name}.lp")]
        bad = set()
        total = 0
        for prop in list(semprops.SEM) + list(semprops.STRUCT):
            if prop == "C17":
                continue
            pls = semprops.payloads(prop, progs)
            total += len(pls)
            for pl, f, err in semprops.run_parallel(pls, task_timeout=20):
                if f is not None or err:
                    bad.add(pl["text"])
        good = [p["text"] for p in progs if p["text"] not in bad]
        with open(f"/verif/corpus/oracle_{name}.lp", "w") as fh:
            fh.write("\n%%%%\n".join(t.strip("\n") for t in good) + "\n")
        print(name, "programs", len(progs), "kept", len(good), "payloads", total)

main()
