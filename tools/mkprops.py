#!/usr/bin/env python3
"""developer tool (not used at check time): writes coq/Props/<Cnn>.v from a spec
   spec line:  <ThmName> = <Module>.<lemma>   ; statements are printed by Coq once and then *committed as text*,
   so a later weakening of a lemma breaks `exact` in the Props file instead of going unnoticed."""
import re
import subprocess
import sys
import os

COQ = "/verif/coq"


def statement(imports, lemma):
    src = f"From Coq Require Import List String ZArith Bool Permutation.\nFrom NGO Require Import {' '.join(imports)}.\nSet Printing Width 100000. Set Printing Depth 100000.\nCheck @{lemma}.\n"
    open("/tmp/_mkprops.v", "w").write(src)
    r = subprocess.run(["coqc", "-Q", ".", "NGO", "/tmp/_mkprops.v"], cwd=COQ, capture_output=True, text=True)
    if r.returncode != 0:
        raise SystemExit(r.stderr)
    out = r.stdout.strip()
    m = re.match(r"^\S+\s*:\s*(.*)$", out, re.S)
    return " ".join(m.group(1).split())


def append_main():
    """mkprops.py --append Cnn imports name=lemma ...  : appends theorem blocks (and the needed Require) to an existing Props file"""
    _, prop, imports, *items = sys.argv[1:]
    imports = imports.split(",")
    path = os.path.join(COQ, "Props", prop + ".v")
    lines = ["", f"From NGO Require Import {' '.join(imports)}.", ""]
    for it in items:
        name, lemma = it.split("=")
        st = statement(imports, lemma)
        lines += [f"Theorem {name} : {st}.", f"Proof. exact (@{lemma}). Qed.", f"Print Assumptions {name}.", ""]
    open(path, "a").write("\n".join(lines))


def main():
    if sys.argv[1] == "--append":
        return append_main()
    prop, header, imports, *items = sys.argv[1:]
    imports = imports.split(",")
    lines = [f"(* {prop}: {header}\n   Only statements, `exact`, and Print Assumptions live here. *)",
             "From Coq Require Import List String ZArith Bool Permutation.",
             f"From NGO Require Import {' '.join(imports)}.", "Import ListNotations.", ""]
    for it in items:
        name, lemma = it.split("=")
        st = statement(imports, lemma)
        lines += [f"Theorem {name} : {st}.", f"Proof. exact (@{lemma}). Qed.", f"Print Assumptions {name}.", ""]
    open(os.path.join(COQ, "Props", prop + ".v"), "w").write("\n".join(lines))


if __name__ == "__main__":
    main()
